//! Bind closures: a small expression language interpreted inside the closure the engine calls.

use std::rc::Rc;
use std::sync::Arc;

use incremental::Incr;

use crate::closures::*;
use crate::exec::memo_call;
use crate::plan::*;
use crate::trace::*;
use crate::world::*;

#[derive(Clone)]
struct Captured {
    outers: Vec<(Hid, Incr<i64>)>,
    /// clones of the memoised functions alive when the bind was created
    memos: Vec<(usize, MemoFn)>,
}

fn expr_hb(e: &BodyExpr, base: i32, cap_hb: i32, memo_hb: i32) -> i32 {
    match e {
        BodyExpr::Outer(_) => cap_hb.max(base + 1),
        BodyExpr::Const(_) | BodyExpr::NewVar { .. } => base + 1,
        BodyExpr::Map(e, _) | BodyExpr::MapVia(e, _, _) | BodyExpr::WithOld(e, _) => expr_hb(e, base, cap_hb, memo_hb).max(base) + 1,
        BodyExpr::Ref(e, _) => expr_hb(e, base, cap_hb, memo_hb).max(base) + 2,
        BodyExpr::Map2(a, b, _) => expr_hb(a, base, cap_hb, memo_hb).max(expr_hb(b, base, cap_hb, memo_hb)).max(base) + 1,
        BodyExpr::Fold(es, _) => es.iter().map(|e| expr_hb(e, base, cap_hb, memo_hb)).max().unwrap_or(0).max(base) + 1,
        BodyExpr::Bind(e, b) => {
            let lc = expr_hb(e, base, cap_hb, memo_hb).max(base) + 1;
            body_hb(b, lc, cap_hb, memo_hb)
        }
        BodyExpr::Memo { .. } => memo_hb.max(base + 1),
        BodyExpr::LocalMemo { .. } => cap_hb.max(base) + 1,
    }
}
/// height bound of the main node of a bind whose change-detector node is at most `lc`
fn body_hb(b: &BodySpec, lc: i32, cap_hb: i32, memo_hb: i32) -> i32 {
    b.alts.iter().chain(b.side.iter().map(|s| &**s)).map(|a| expr_hb(a, lc, cap_hb, memo_hb)).max().unwrap_or(0).max(lc) + 1
}

pub fn new_bind(w: &Rc<World>, lhs: usize, body: &BodySpec) {
    let Some(l) = w.pick(Pool::I, lhs) else {
        return w.log(Ev::Act { ctx: w.cur_ctx(), act: Act::Skipped("no node") });
    };
    if body.alts.is_empty() {
        return w.log(Ev::Act { ctx: w.cur_ctx(), act: Act::Skipped("empty body") });
    }
    // resolve the captured outer nodes
    let clean = w.clean_pool();
    let anc = w.ancestors(l);
    let mut outers: Vec<(Hid, Incr<i64>)> = vec![];
    for sel in &body.outers {
        let cands: Vec<Hid> = match sel {
            OuterSel::Any(_) => clean.clone(),
            OuterSel::LhsAncestor(_) => clean.iter().copied().filter(|h| anc.contains(h)).collect(),
            OuterSel::Invalid(_) => {
                let m = w.model.borrow();
                let nodes = w.nodes.borrow();
                nodes.iter().enumerate().filter(|(i, e)| e.h.is_some() && !e.pair && !e.trip && m.is_invalid(*i)).map(|(i, _)| i).collect()
            }
            OuterSel::Recent(k) => clean.iter().rev().nth(*k).copied().into_iter().collect(),
            OuterSel::Sibling(_) => clean
                .iter()
                .copied()
                .filter(|h| *h != l && !anc.contains(h) && w.ancestors(*h).iter().any(|a| anc.contains(a)))
                .collect(),
        };
        let cands = if cands.is_empty() { clean.clone() } else { cands };
        if cands.is_empty() {
            continue;
        }
        let i = match sel {
            OuterSel::Any(i) | OuterSel::LhsAncestor(i) | OuterSel::Sibling(i) | OuterSel::Invalid(i) => *i,
            OuterSel::Recent(_) => 0,
        };
        let h = cands[i % cands.len()];
        if let Some(NodeH::I(n)) = w.node_h(h) {
            outers.push((h, n));
        }
    }
    let (lhs_hb, lhs_clean) = {
        let nodes = w.nodes.borrow();
        // a bind that captured an unclean (invalid) node is itself not capturable by other binds
        (nodes[l].hb, nodes[l].clean && outers.iter().all(|(h, _)| nodes[*h].clean))
    };
    let cap_hb = {
        let nodes = w.nodes.borrow();
        outers.iter().map(|(h, _)| nodes[*h].hb).max().unwrap_or(0)
    };
    let memo_hb = {
        let nodes = w.nodes.borrow();
        w.memos.borrow().iter().map(|m| nodes[m.src].hb + 1).max().unwrap_or(0)
    };
    let hb = body_hb(body, lhs_hb + 1, cap_hb, memo_hb);
    if hb > w.max_height.get() {
        return w.log(Ev::Act { ctx: w.cur_ctx(), act: Act::Skipped("height") });
    }
    let Some(NodeH::I(lhs_incr)) = w.node_h(l) else { return };
    let memos: Vec<(usize, MemoFn)> = w
        .memos
        .borrow()
        .iter()
        .enumerate()
        // (functions memoised inside a run of some bind are that run's business: another closure
        // using them would need nodes of a bind that may not be necessary, relaxation R4)
        .filter(|(_, m)| m.local.is_none())
        // a real clone of the memoised function, as a closure that owns one would hold
        .filter_map(|(i, m)| m.f.as_ref().map(|f| (i, Rc::new(std::cell::RefCell::new(f.borrow().clone_box())))))
        .collect();
    let cap = Captured { outers, memos };
    let spec = Arc::new(body.clone());
    let (_, bhid) = make_bind(w, &lhs_incr, l, spec, cap, None, true, lhs_clean, hb);
    w.last_bind.set(Some(bhid));
}

/// Creates a bind node over `lhs_incr` and registers it. Returns (node, hid).
#[allow(clippy::too_many_arguments)]
fn make_bind(
    w: &Rc<World>,
    lhs_incr: &Incr<i64>,
    lhs_hid: Hid,
    spec: Arc<BodySpec>,
    cap: Captured,
    scope: Option<(Hid, u32)>,
    keep: bool,
    clean: bool,
    hb: i32,
) -> (Incr<i64>, Hid) {
    let bind_hid = w.next_hid();
    let weak = Rc::downgrade(w);
    let cb = w.new_callback_id();
    let tok = w.tokens.issue(bind_hid);
    let spec2 = spec.clone();
    let cap2 = cap.clone();
    let use_binds = spec.via & 1 == 1;
    let mut body = move |l: &i64| -> Incr<i64> {
        let _tok = &tok;
        let w = weak.upgrade().expect("bind closure outlived the world");
        let _g = enter(&w, Ctx::BindFn(bind_hid));
        let call = w.bump_call(cb);
        w.crash_point();
        let gen = {
            let mut g = w.bind_gen.borrow_mut();
            let e = g.entry(bind_hid).or_insert(0);
            let cur = *e;
            *e += 1;
            cur
        };
        let st = w.state().expect("state gone during stabilise");
        if spec2.temp {
            // a node created and dropped inside the closure
            let t = st.constant(99i64);
            drop(t);
        }
        let k = spec2.alts.len() as i64;
        let alt = &spec2.alts[l.rem_euclid(k) as usize];
        let cx = Cx { w: &w, l: *l, cap: &cap2, scope: (bind_hid, gen), export: spec2.export, hb };
        let (rhs, rhs_hid) = build(&cx, alt);
        if let Some(side) = &spec2.side {
            let cx2 = Cx { w: &w, l: *l, cap: &cap2, scope: (bind_hid, gen), export: true, hb };
            let _ = build(&cx2, side);
        }
        w.log(Ev::BindRun { bind: bind_hid, gen, l: *l, rhs: rhs_hid });
        run_effects(&w, &spec2.fx, call, Some(MV::I(*l)));
        rhs
    };
    let n = if use_binds { lhs_incr.binds(move |_st, l| body(l)) } else { lhs_incr.bind(body) };
    let hid = w.register(
        NodeH::I(n.clone()),
        RK::Bind {
            lhs: lhs_hid,
            outers: cap.outers.iter().map(|(h, _)| *h).collect(),
            memos: cap.memos.iter().map(|(i, _)| *i).collect(),
            body: spec,
        },
        scope,
        keep,
        clean,
        hb,
    );
    debug_assert_eq!(hid, bind_hid);
    (n, hid)
}

struct Cx<'a> {
    w: &'a Rc<World>,
    l: i64,
    cap: &'a Captured,
    scope: (Hid, u32),
    export: bool,
    hb: i32,
}

fn build(cx: &Cx, e: &BodyExpr) -> (Incr<i64>, Hid) {
    let w = cx.w;
    let st = w.state().expect("state gone");
    let l = cx.l;
    match e {
        BodyExpr::Outer(i) => {
            if cx.cap.outers.is_empty() {
                return build(cx, &BodyExpr::Const(*i as i64));
            }
            let (h, n) = &cx.cap.outers[*i % cx.cap.outers.len()];
            (n.clone(), *h)
        }
        BodyExpr::Const(c) => {
            let v = norm(*c + l);
            let n = st.constant(v);
            let hid = w.register(NodeH::I(n.clone()), RK::BConst(v), Some(cx.scope), cx.export, false, cx.hb);
            (n, hid)
        }
        BodyExpr::NewVar { v, top } => {
            let val = norm(*v + l);
            let var = if *top { st.var(val) } else { st.var_current_scope(val) };
            let n = var.watch();
            drop(var);
            let scope = if *top { None } else { Some(cx.scope) };
            let hid = w.register(NodeH::I(n.clone()), RK::BVar { v: val }, scope, cx.export, false, cx.hb);
            (n, hid)
        }
        BodyExpr::Map(inner, f) | BodyExpr::MapVia(inner, f, _) => {
            let (ie, he) = build(cx, inner);
            let hid = w.next_hid();
            let mut lg = logged(w, hid, vec![]);
            let f = *f;
            let mut mf = move |x: &i64| {
                let r = f.ap(l, *x);
                lg(vec![MV::I(*x)], MV::I(r));
                r
            };
            let n = match e {
                BodyExpr::MapVia(_, _, v) => match *v % 3 {
                    0 => ie.map_cyclic(move |_me, x| mf(x)),
                    1 => ie.enumerate(move |_k, x| mf(x)),
                    _ => ie.pipe(move |i| i.map(mf)),
                },
                _ => ie.map(mf),
            };
            w.register(NodeH::I(n.clone()), RK::BMap { src: he, f, l }, Some(cx.scope), cx.export, false, cx.hb);
            if cx.export {
                w.last_exported.set(Some(hid));
            }
            (n, hid)
        }
        BodyExpr::Ref(inner, proj) if *proj == 2 => {
            // the identity view, directly over the inner expression (possibly an outer node)
            let (ie, he) = build(cx, inner);
            let n = ie.map_ref(|x: &i64| x);
            let hid = w.register(NodeH::I(n.clone()), RK::MapRef { src: he, proj: 2 }, Some(cx.scope), cx.export, false, cx.hb);
            if cx.export {
                w.last_exported.set(Some(hid));
            }
            (n, hid)
        }
        BodyExpr::Ref(inner, proj) => {
            let (ie, he) = build(cx, inner);
            let hid1 = w.next_hid();
            let mut lg = logged(w, hid1, vec![]);
            let n1 = ie.map(move |x: &i64| {
                let r = (x.rem_euclid(3), x.div_euclid(2));
                lg(vec![MV::I(*x)], r.mv());
                r
            });
            w.register(NodeH::P(n1.clone()), RK::MapIP { src: he }, Some(cx.scope), cx.export, false, cx.hb);
            let n2 = if *proj % 2 == 0 { n1.map_ref(|p: &Pair| &p.0) } else { n1.map_ref(|p: &Pair| &p.1) };
            let hid2 = w.register(NodeH::I(n2.clone()), RK::MapRef { src: hid1, proj: *proj % 2 }, Some(cx.scope), cx.export, false, cx.hb);
            if cx.export {
                w.last_exported.set(Some(hid2));
            }
            (n2, hid2)
        }
        BodyExpr::WithOld(inner, f) => {
            let (ie, he) = build(cx, inner);
            let hid = w.next_hid();
            let n = ie.map_with_old(crate::closures::with_old_fn(w, hid, *f));
            w.register(NodeH::I(n.clone()), RK::MapWithOld { src: he, f: *f }, Some(cx.scope), cx.export, false, cx.hb);
            (n, hid)
        }
        BodyExpr::Map2(a, b, f) => {
            let (ia, ha) = build(cx, a);
            let (ib, hb_) = build(cx, b);
            let hid = w.next_hid();
            let mut lg = logged(w, hid, vec![]);
            let f = *f;
            let n = ia.map2(&ib, move |x: &i64, y: &i64| {
                let r = f.ap(*x, *y);
                lg(vec![MV::I(*x), MV::I(*y)], MV::I(r));
                r
            });
            w.register(NodeH::I(n.clone()), RK::BMap2 { a: ha, b: hb_, f }, Some(cx.scope), cx.export, false, cx.hb);
            (n, hid)
        }
        BodyExpr::Fold(es, f) => {
            let mut ins = vec![];
            let mut hs = vec![];
            for e in es.iter().take(4) {
                let (i, h) = build(cx, e);
                ins.push(i);
                hs.push(h);
            }
            if ins.is_empty() {
                return build(cx, &BodyExpr::Const(0));
            }
            let hid = w.next_hid();
            let n = st.fold(ins, 0i64, fold_fn(w, hid, *f));
            w.register(NodeH::I(n.clone()), RK::BFold { srcs: hs, f: *f }, Some(cx.scope), cx.export, false, cx.hb);
            (n, hid)
        }
        BodyExpr::Bind(inner, body) => {
            if body.alts.is_empty() {
                return build(cx, inner);
            }
            let (ie, he) = build(cx, inner);
            let spec = Arc::new((**body).clone());
            let keep = cx.export || body.export;
            let (n, hid) = make_bind(w, &ie, he, spec, cx.cap.clone(), Some(cx.scope), keep, false, cx.hb);
            (n, hid)
        }
        BodyExpr::LocalMemo { k } => {
            if cx.cap.outers.is_empty() {
                return build(cx, &BodyExpr::Const(*k));
            }
            let (src_hid, src) = cx.cap.outers[0].clone();
            let weak = Rc::downgrade(w);
            let m = w.memos.borrow().len();
            let fresh_flag: Rc<std::cell::Cell<Option<Hid>>> = Rc::new(std::cell::Cell::new(None));
            let ff = fresh_flag.clone();
            let scope = cx.scope;
            let hb = cx.hb;
            let export = cx.export;
            // a top-level memoised constructor for the local one to call on a miss (its node
            // belongs to the top level whatever scope the call comes from)
            let top: Option<(usize, MemoFn)> = cx.cap.memos.first().cloned();
            // memoised inside the closure: the table and its nodes belong to this run of the bind.
            // The function is also handed to the driver, which may call it later from the top level.
            let underlying = move |key: i64| -> Incr<i64> {
                let w = weak.upgrade().expect("world gone");
                w.crash_point();
                if let Some((mi, ftop)) = &top {
                    let (n0, hid0, fresh0, prev0) = memo_call(&w, *mi, ftop, key);
                    let ctx = w.cur_ctx();
                    if ctx == Ctx::Top && hid0 != usize::MAX {
                        let mut nodes = w.nodes.borrow_mut();
                        if nodes[hid0].h.is_none() {
                            nodes[hid0].h = Some(NodeH::I(n0.clone()));
                        }
                    }
                    w.log(Ev::Act { ctx, act: Act::MemoCall { m: *mi, key: key.rem_euclid(3), hid: hid0, fresh: fresh0, prev_alive: prev0 } });
                }
                let hid = w.next_hid();
                let mut lg = logged(&w, hid, vec![]);
                let n = src.map(move |x: &i64| {
                    let r = norm(*x + key);
                    lg(vec![MV::I(*x)], MV::I(r));
                    r
                });
                // (called from the closure: handed to the driver only if the bind exports its nodes;
                // called from the top level later: the driver takes the handle, see exec MemoCall)
                let keep = export && w.cur_ctx() != Ctx::Top;
                w.register(NodeH::I(n.clone()), RK::BMemo { src: src_hid, key }, Some(scope), keep, false, hb);
                w.memos.borrow_mut()[m].made.push((key, hid, n.weak()));
                ff.set(Some(hid));
                n
            };
            let shared = Rc::new(std::cell::RefCell::new(underlying));
            let sh = shared.clone();
            let memo = st.weak_memoize_fn(move |key: i64| (sh.borrow_mut())(key));
            let boxed: Box<dyn MemoF> = Box::new(memo);
            let f: MemoFn = Rc::new(std::cell::RefCell::new(boxed));
            w.memos.borrow_mut().push(MemoEntry { f: Some(f.clone()), src: src_hid, made: vec![], fresh_flag, local: Some(scope) });
            w.log(Ev::Act { ctx: w.cur_ctx(), act: Act::Memoize { m, src: src_hid } });
            let (n, hid, fresh, prev_alive) = memo_call(w, m, &f, *k + l);
            w.log(Ev::Act { ctx: w.cur_ctx(), act: Act::MemoCall { m, key: (*k + l).rem_euclid(3), hid, fresh, prev_alive } });
            if cx.export {
                w.last_exported.set(Some(hid));
            }
            (n, hid)
        }
        BodyExpr::Memo { m, k } => {
            if cx.cap.memos.is_empty() {
                return build(cx, &BodyExpr::Const(*k));
            }
            let (mi, f) = &cx.cap.memos[*m % cx.cap.memos.len()];
            let (n, hid, fresh, prev_alive) = memo_call(w, *mi, f, *k + l);
            w.log(Ev::Act { ctx: w.cur_ctx(), act: Act::MemoCall { m: *mi, key: (*k + l).rem_euclid(3), hid, fresh, prev_alive } });
            (n, hid)
        }
    }
}

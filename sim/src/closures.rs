//! Instrumented closures: everything the engine calls back into is produced here. Each closure
//! logs its invocation, is a crash point, and executes its plan-chosen re-entrant effects.

use std::rc::{Rc, Weak};

use incremental::{Cutoff, Update};

use crate::exec::exec_effect;
use crate::plan::*;
use crate::trace::*;
use crate::world::*;

pub struct CtxGuard {
    w: Weak<World>,
}
impl Drop for CtxGuard {
    fn drop(&mut self) {
        if let Some(w) = self.w.upgrade() {
            if let Ok(mut c) = w.ctx.try_borrow_mut() {
                c.pop();
            }
        }
    }
}
pub fn enter(w: &Rc<World>, ctx: Ctx) -> CtxGuard {
    w.ctx.borrow_mut().push(ctx);
    CtxGuard { w: Rc::downgrade(w) }
}

pub fn run_effects(w: &Rc<World>, fx: &[EffectSpec], n: u32, arg: Option<MV>) {
    for e in fx {
        if e.on.contains(&n) {
            exec_effect(w, &e.eff, arg);
        }
    }
}

pub fn map1_fn(
    w: &Rc<World>,
    hid: Hid,
    f: F1,
    fx: Vec<EffectSpec>,
) -> impl FnMut(&i64) -> i64 + 'static {
    let weak = Rc::downgrade(w);
    let cb = w.new_callback_id();
    let tok = w.tokens.issue(hid);
    move |x: &i64| {
        let _tok = &tok;
        let r = f.ap(*x);
        let Some(w) = weak.upgrade() else { return r };
        let _g = enter(&w, Ctx::Node(hid));
        let n = w.bump_call(cb);
        w.crash_point();
        w.log(Ev::Invoke {
            hid,
            args: vec![MV::I(*x)],
            old: None,
            result: MV::I(r),
        });
        run_effects(&w, &fx, n, Some(MV::I(*x)));
        r
    }
}

/// Generic logging wrapper used by the fixed-arity closures below.
pub fn logged(
    w: &Rc<World>,
    hid: Hid,
    fx: Vec<EffectSpec>,
) -> impl FnMut(Vec<MV>, MV) + 'static {
    let weak = Rc::downgrade(w);
    let cb = w.new_callback_id();
    let tok = w.tokens.issue(hid);
    move |args: Vec<MV>, result: MV| {
        let _tok = &tok;
        let Some(w) = weak.upgrade() else { return };
        let _g = enter(&w, Ctx::Node(hid));
        let n = w.bump_call(cb);
        w.crash_point();
        let first = args.first().copied();
        w.log(Ev::Invoke {
            hid,
            args,
            old: None,
            result,
        });
        run_effects(&w, &fx, n, first);
    }
}

pub fn with_old_fn(
    w: &Rc<World>,
    hid: Hid,
    f: F1,
) -> impl FnMut(Option<i64>, &i64) -> (i64, bool) + 'static {
    let weak = Rc::downgrade(w);
    let cb = w.new_callback_id();
    let tok = w.tokens.issue(hid);
    move |old: Option<i64>, x: &i64| {
        let _tok = &tok;
        let r = f.ap(*x);
        let changed = old != Some(r);
        let Some(w) = weak.upgrade() else {
            return (r, changed);
        };
        let _g = enter(&w, Ctx::Node(hid));
        w.bump_call(cb);
        w.crash_point();
        w.log(Ev::Invoke {
            hid,
            args: vec![MV::I(*x)],
            old: old.map(MV::I),
            result: MV::I(r),
        });
        (r, changed)
    }
}

pub fn fold_fn(w: &Rc<World>, hid: Hid, f: F2) -> impl FnMut(i64, &i64) -> i64 + 'static {
    let weak = Rc::downgrade(w);
    let cb = w.new_callback_id();
    let tok = w.tokens.issue(hid);
    move |acc: i64, x: &i64| {
        let _tok = &tok;
        let r = f.ap(acc, *x);
        let Some(w) = weak.upgrade() else { return r };
        let _g = enter(&w, Ctx::Node(hid));
        w.bump_call(cb);
        w.crash_point();
        w.log(Ev::FoldStep {
            hid,
            acc,
            x: *x,
            result: r,
        });
        r
    }
}

// ---- cutoffs --------------------------------------------------------------------------------

fn plain_cutoff<T: ToMV>(k: u8, a: &T, b: &T) -> bool {
    let (a, b) = (a.mv(), b.mv());
    let res = class_eq(k, a, b);
    let w = CURRENT.with(|c| c.borrow().upgrade());
    if let Some(w) = w {
        let _g = enter(&w, Ctx::Cutoff(usize::MAX));
        w.crash_point();
        w.log(Ev::Cutoff {
            hid: None,
            old: a,
            new: b,
            res,
        });
    }
    res
}
fn cutoff1<T: ToMV>(a: &T, b: &T) -> bool {
    plain_cutoff(1, a, b)
}
fn cutoff2<T: ToMV>(a: &T, b: &T) -> bool {
    plain_cutoff(2, a, b)
}
fn cutoff3<T: ToMV>(a: &T, b: &T) -> bool {
    plain_cutoff(3, a, b)
}

pub fn make_cutoff<T: ToMV>(w: &Rc<World>, hid: Hid, c: CutoffSpec) -> Cutoff<T> {
    match c {
        CutoffSpec::Default => Cutoff::PartialEq,
        CutoffSpec::Never => Cutoff::Never,
        CutoffSpec::Always => Cutoff::Always,
        CutoffSpec::Fn(k) => Cutoff::Fn(match k {
            0 | 1 => cutoff1::<T>,
            2 => cutoff2::<T>,
            _ => cutoff3::<T>,
        }),
        CutoffSpec::Boxed(k) => {
            let weak = Rc::downgrade(w);
            Cutoff::FnBoxed(Box::new(move |a: &T, b: &T| {
                let (a, b) = (a.mv(), b.mv());
                let res = class_eq(k.min(3), a, b);
                if let Some(w) = weak.upgrade() {
                    let _g = enter(&w, Ctx::Cutoff(hid));
                    w.crash_point();
                    w.log(Ev::Cutoff {
                        hid: Some(hid),
                        old: a,
                        new: b,
                        res,
                    });
                }
                res
            }))
        }
    }
}

// ---- handlers -------------------------------------------------------------------------------

pub fn make_handler<T: ToMV>(
    w: &Rc<World>,
    sid: usize,
    oid: usize,
    spec: HandlerSpec,
) -> impl FnMut(Update<&T>) + 'static {
    let weak = Rc::downgrade(w);
    let cb = w.new_callback_id();
    let tok = w.tokens.issue(usize::MAX - 1);
    move |u: Update<&T>| {
        let _tok = &tok;
        let Some(w) = weak.upgrade() else { return };
        let _g = enter(&w, Ctx::Handler(sid));
        let n = w.bump_call(cb);
        w.handler_phase.set(true);
        w.crash_point();
        let upd = match u {
            Update::Initialised(v) => Upd::Init(v.mv()),
            Update::Changed(v) => Upd::Changed(v.mv()),
            Update::Invalidated => Upd::Invalidated,
        };
        // what does the observer itself say right now?
        let read = {
            let obs = w.obs.borrow();
            obs[oid]
                .clones
                .iter()
                .flatten()
                .next()
                .map(|h| h.read())
                .unwrap_or(Err(ObsErr::Mismatch))
        };
        w.log(Ev::Notify { sid, upd, read });
        let arg = match upd {
            Upd::Init(v) | Upd::Changed(v) => Some(v),
            _ => None,
        };
        run_effects(&w, &spec.fx, n, arg);
    }
}

pub fn make_node_handler<T: ToMV>(
    w: &Rc<World>,
    nh: usize,
) -> impl FnMut(incremental::NodeUpdate<&T>) + 'static {
    let weak = Rc::downgrade(w);
    let tok = w.tokens.issue(usize::MAX - 2);
    move |u: incremental::NodeUpdate<&T>| {
        let _tok = &tok;
        let Some(w) = weak.upgrade() else { return };
        let _g = enter(&w, Ctx::NodeHandler(nh));
        w.handler_phase.set(true);
        w.crash_point();
        let upd = match u {
            incremental::NodeUpdate::Necessary(v) => Upd::Init(v.mv()),
            incremental::NodeUpdate::Changed(v) => Upd::Changed(v.mv()),
            incremental::NodeUpdate::Invalidated => Upd::Invalidated,
            incremental::NodeUpdate::Unnecessary => Upd::Unnecessary,
        };
        w.log(Ev::NodeNotify { nh, upd });
    }
}

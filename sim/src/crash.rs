//! C13: what must hold after a user function panicked inside stabilise and the panic was caught.

use std::panic::{catch_unwind, AssertUnwindSafe};
use std::rc::Rc;

use crate::run::{panic_message, teardown};
use crate::trace::*;
use crate::world::*;

fn read_all(w: &Rc<World>) -> Vec<(usize, usize, RR)> {
    let mut out = vec![];
    let n = w.obs.borrow().len();
    for oid in 0..n {
        let m = w.obs.borrow()[oid].clones.len();
        for c in 0..m {
            let res = w.obs.borrow()[oid].clones[c].as_ref().map(|h| h.read());
            if let Some(res) = res {
                out.push((oid, c, res));
            }
        }
    }
    out
}

fn push(w: &Rc<World>, rule: &'static str, detail: String) {
    let at = w.trace.borrow().len();
    w.model.borrow_mut().violations.push(Violation { property: "C13", rule, at, detail });
}

fn judge_reads(w: &Rc<World>, reads: &[(usize, usize, RR)], in_handlers: bool, when: &str) {
    for (oid, c, res) in reads {
        w.trace.borrow_mut().push(Ev::Read { oid: *oid, clone: *c, res: *res });
        match res {
            Err(_) => {}
            Ok(v) => {
                if !in_handlers {
                    push(w, "value-after-crash-in-propagation", format!("{when}: observer {oid} returned {:?} although a node function panicked mid-propagation", v));
                } else {
                    let exp = w.model.borrow().expected_read(*oid);
                    if exp != Ok(*v) {
                        push(w, "partial-value-after-handler-crash", format!("{when}: observer {oid} returned {:?}, the fully propagated value is {:?}", v, exp));
                    }
                }
            }
        }
    }
}

pub fn post_crash_protocol(w: &Rc<World>) {
    let in_handlers = w.handler_phase.get();
    w.trace.borrow_mut().push(Ev::Note(format!("post-crash protocol (crash in {})", if in_handlers { "handler phase" } else { "propagation" })));
    // (1) reads
    let r1 = catch_unwind(AssertUnwindSafe(|| read_all(w)));
    let first = match r1 {
        Ok(reads) => {
            judge_reads(w, &reads, in_handlers, "after the crash");
            reads
        }
        Err(p) => {
            let (msg, _) = panic_message(&p);
            push(w, "read-panicked", format!("reading an observer after the crash panicked: {msg}"));
            vec![]
        }
    };
    // (2) a further stabilise refuses to run
    if let Some(st) = w.state() {
        let calls_before = w.total_calls.get();
        let r = catch_unwind(AssertUnwindSafe(|| st.stabilise()));
        match r {
            Err(p) => {
                let _ = panic_message(&p);
            }
            Ok(()) => push(w, "stabilise-ran-after-crash", "a second stabilise ran to completion after a panic escaped the first".into()),
        }
        if w.total_calls.get() != calls_before {
            push(w, "user-code-ran-after-crash", "user functions were invoked by a stabilise attempted after the crash".into());
        }
        // (3) writes and new observers do not un-poison
        let _ = catch_unwind(AssertUnwindSafe(|| {
            let vars = w.vars.borrow();
            for v in vars.iter() {
                match v.h.as_ref() {
                    Some(VarH::I(x)) => x.set(7),
                    Some(VarH::P(x)) => x.set((7, 7)),
                    None => {}
                }
            }
        }));
        let r3 = catch_unwind(AssertUnwindSafe(|| read_all(w)));
        match r3 {
            Ok(reads) => {
                judge_reads(w, &reads, in_handlers, "after a refused stabilise and further writes");
                for ((o1, c1, a), (_, _, b)) in first.iter().zip(reads.iter()) {
                    if a != b {
                        push(w, "read-changed-after-crash", format!("observer {o1} (clone {c1}) returned {:?} right after the crash and {:?} later", a, b));
                    }
                }
            }
            Err(p) => {
                let (msg, _) = panic_message(&p);
                push(w, "read-panicked", format!("reading an observer after the crash panicked: {msg}"));
            }
        }
    }
    // (4) everything can still be dropped, in any order, without a second panic
    let before = w.model.borrow().violations.len();
    let perm = w.crash_counter.get() ^ 0xc13;
    teardown(w, perm, false);
    let mut m = w.model.borrow_mut();
    for v in m.violations[before..].iter_mut() {
        if v.property == "C12" {
            v.property = "C13";
            v.rule = "drop-after-crash-panicked";
        }
    }
}

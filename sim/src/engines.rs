//! Dispatch for the non-core engines (expert, map, limits).

use crate::plan::*;
use crate::run::RunOutput;

pub fn gen_plan(prop: &str, _seed: u64) -> Plan {
    panic!("engine for {prop} not built yet")
}

pub fn run_plan(plan: &Plan, _keep: bool) -> RunOutput {
    panic!("engine {} not built yet", plan.engine)
}

//! Dispatch for the non-core engines (expert, map, limits).

use crate::plan::*;
use crate::run::{run_with, RunOutput};

pub fn gen_plan(prop: &str, seed: u64) -> Plan {
    match prop {
        "C14" => crate::expert::gen_plan(seed),
        "C15" | "C16" | "C17" => crate::mapeng::gen_plan(prop, seed),
        "C19" => crate::limits::gen_plan(seed),
        _ => panic!("engine for {prop} not built yet"),
    }
}

pub fn run_plan(plan: &Plan, keep: bool) -> RunOutput {
    let mut out = run_inner(plan, keep);
    // the histories of these engines are well-formed programs: under the C04 check a panic in
    // one of them is a C04 violation as well
    if plan.knobs.stop_on == "C04" && plan.engine != "limits" {
        if let Some(msg) = out.panics.first().cloned() {
            let at = out.events as usize;
            out.violations.push(crate::trace::Violation { property: "C04", rule: "panic", at, detail: format!("{} engine: unexpected panic: {}", plan.engine, msg) });
        }
    }
    // C07's one-assignment clause over programs whose expert node writes a variable from its
    // observability callback (a callback made inside stabilise): observers must still show the
    // assignment current when stabilise was called
    if plan.knobs.stop_on == "C07" && plan.engine == "expert" {
        if let Some(v) = out.violations.iter().find(|v| v.rule == "wrong-value").cloned() {
            let hook = out.faults.get("expert_write_from_observability_callback").copied().unwrap_or(0) > 0;
            out.violations.push(crate::trace::Violation {
                property: "C07",
                rule: "observers-not-one-assignment",
                at: v.at,
                detail: format!("expert engine{}: an observer does not show the value of the current variable assignment: {}", if hook { ", after a write made by an observability callback inside stabilise" } else { "" }, v.detail),
            });
        }
    }
    // C02 over expert nodes: the dynamic sum, too, is evaluated at most once per stabilise and
    // on final inputs
    if plan.knobs.stop_on == "C02" && plan.engine == "expert" {
        let extra: Vec<crate::trace::Violation> = out
            .violations
            .iter()
            .filter(|v| v.rule == "double-recompute" || v.rule == "callback-discipline")
            .map(|v| crate::trace::Violation { property: "C02", rule: if v.rule == "double-recompute" { "double-run" } else { "input-ran-after-dependant" }, at: v.at, detail: format!("expert engine: {}", v.detail) })
            .collect();
        out.violations.extend(extra);
    }
    out
}

fn run_inner(plan: &Plan, keep: bool) -> RunOutput {
    match plan.engine.as_str() {
        "expert" => run_with(plan, keep, crate::expert::run_on_this_thread),
        "map" => run_with(plan, keep, crate::mapeng::run_on_this_thread),
        "limits" => run_with(plan, keep, crate::limits::run_on_this_thread),
        "templates" => run_with(plan, keep, crate::templates::run_on_this_thread),
        e => panic!("engine {e} not built yet"),
    }
}

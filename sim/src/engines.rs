//! Dispatch for the non-core engines (expert, map, limits).

use crate::plan::*;
use crate::run::{run_with, RunOutput};

pub fn gen_plan(prop: &str, seed: u64) -> Plan {
    match prop {
        "C14" => crate::expert::gen_plan(seed),
        "C15" | "C16" | "C17" => crate::mapeng::gen_plan(prop, seed),
        "C19" => crate::limits::gen_plan(seed),
        _ => panic!("engine for {prop} not built yet"),
    }
}

pub fn run_plan(plan: &Plan, keep: bool) -> RunOutput {
    match plan.engine.as_str() {
        "expert" => run_with(plan, keep, crate::expert::run_on_this_thread),
        "map" => run_with(plan, keep, crate::mapeng::run_on_this_thread),
        "limits" => run_with(plan, keep, crate::limits::run_on_this_thread),
        "templates" => run_with(plan, keep, crate::templates::run_on_this_thread),
        e => panic!("engine {e} not built yet"),
    }
}

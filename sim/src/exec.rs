//! Interpreter of plan actions and re-entrant effects against the real engine.
//! Rule: never hold a borrow of a World table across a call into the engine that can run user
//! code (stabilise) or drop handles.

use std::cell::{Cell, RefCell};
use std::rc::Rc;
use std::sync::Arc;

use incremental::Incr;

use crate::body;
use crate::closures::*;
use crate::plan::*;
use crate::trace::*;
use crate::world::*;

fn act(w: &Rc<World>, a: Act) {
    let ctx = w.cur_ctx();
    w.log(Ev::Act { ctx, act: a });
}
fn skipped(w: &Rc<World>, why: &'static str) {
    act(w, Act::Skipped(why));
}

fn hb_of(w: &World, hids: &[Hid]) -> i32 {
    let nodes = w.nodes.borrow();
    hids.iter().map(|h| nodes[*h].hb).max().unwrap_or(0)
}
fn all_clean(w: &World, hids: &[Hid]) -> bool {
    let nodes = w.nodes.borrow();
    hids.iter().all(|h| nodes[*h].clean)
}
fn incr_i(w: &World, hid: Hid) -> Option<Incr<i64>> {
    match w.node_h(hid)? {
        NodeH::I(n) => Some(n),
        _ => None,
    }
}
fn incr_p(w: &World, hid: Hid) -> Option<Incr<Pair>> {
    match w.node_h(hid)? {
        NodeH::P(n) => Some(n),
        _ => None,
    }
}
/// height budget: refuse to build what could exceed the configured limit (C04 well-formedness)
fn fits(w: &World, hb: i32) -> bool {
    hb <= w.max_height.get()
}

pub fn exec_action(w: &Rc<World>, a: &Action) {
    let in_cb = w.cur_ctx() != Ctx::Top;
    match a {
        Action::NewVar { init } => {
            let Some(st) = w.state() else { return skipped(w, "no state") };
            let v = st.var(norm(*init));
            let hid = w.register(NodeH::I(v.watch()), RK::Var { vid: w.vars.borrow().len(), init: MV::I(norm(*init)) }, None, true, true, 1);
            w.vars.borrow_mut().push(VarEntry { h: Some(VarH::I(v)), hid, pair: false });
        }
        Action::NewVarP { a, b } => {
            let Some(st) = w.state() else { return skipped(w, "no state") };
            let v = st.var((norm(*a), norm(*b)));
            let hid = w.register(NodeH::P(v.watch()), RK::Var { vid: w.vars.borrow().len(), init: MV::P(norm(*a), norm(*b)) }, None, true, true, 1);
            w.vars.borrow_mut().push(VarEntry { h: Some(VarH::P(v)), hid, pair: true });
        }
        Action::NewConst { v } => {
            let Some(st) = w.state() else { return skipped(w, "no state") };
            let n = st.constant(norm(*v));
            w.register(NodeH::I(n), RK::Const(MV::I(norm(*v))), None, true, true, 1);
        }
        Action::NewMap { src, f, fx, via } => {
            let Some(s) = w.pick(Pool::I, *src) else { return skipped(w, "no node") };
            let hb = hb_of(w, &[s]) + 1;
            if !fits(w, hb) { return skipped(w, "height") }
            let input = incr_i(w, s).unwrap();
            let hid = w.next_hid();
            let mut mf = map1_fn(w, hid, *f, fx.clone());
            let n = match *via % 4 {
                0 => input.map(mf),
                1 => input.map_cyclic(move |_me, x| mf(x)),
                2 => input.enumerate(move |_k, x| mf(x)),
                _ => input.pipe(move |i| i.map(mf)),
            };
            w.register(NodeH::I(n), RK::Map { src: s, f: *f }, None, true, all_clean(w, &[s]), hb);
        }
        Action::NewMapP { src, f } => {
            let Some(s) = w.pick(Pool::P, *src) else { return skipped(w, "no node") };
            let hb = hb_of(w, &[s]) + 1;
            if !fits(w, hb) { return skipped(w, "height") }
            let input = incr_p(w, s).unwrap();
            let hid = w.next_hid();
            let mut lg = logged(w, hid, vec![]);
            let f = *f;
            let n = input.map(move |p: &Pair| {
                let r = f.ap(p.0, p.1);
                lg(vec![p.mv()], MV::I(r));
                r
            });
            w.register(NodeH::I(n), RK::MapP { src: s, f }, None, true, all_clean(w, &[s]), hb);
        }
        Action::NewMapIP { src } => {
            let Some(s) = w.pick(Pool::I, *src) else { return skipped(w, "no node") };
            let hb = hb_of(w, &[s]) + 1;
            if !fits(w, hb) { return skipped(w, "height") }
            let input = incr_i(w, s).unwrap();
            let hid = w.next_hid();
            let mut lg = logged(w, hid, vec![]);
            let n = input.map(move |x: &i64| {
                let r = (x.rem_euclid(3), x.div_euclid(2));
                lg(vec![MV::I(*x)], r.mv());
                r
            });
            w.register(NodeH::P(n), RK::MapIP { src: s }, None, true, all_clean(w, &[s]), hb);
        }
        Action::NewMapN { srcs, f, fx } => {
            let mut hs = vec![];
            for s in srcs.iter().take(6) {
                match w.pick(Pool::I, *s) {
                    Some(h) => hs.push(h),
                    None => return skipped(w, "no node"),
                }
            }
            if hs.len() < 2 { return skipped(w, "arity") }
            let hb = hb_of(w, &hs) + 1;
            if !fits(w, hb) { return skipped(w, "height") }
            let ins: Vec<Incr<i64>> = hs.iter().map(|h| incr_i(w, *h).unwrap()).collect();
            let hid = w.next_hid();
            let mut lg = logged(w, hid, fx.clone());
            let f = *f;
            let mut go = move |xs: &[i64]| -> i64 {
                let r = f.reduce(xs);
                lg(xs.iter().map(|x| MV::I(*x)).collect(), MV::I(r));
                r
            };
            let n = match ins.len() {
                2 => ins[0].map2(&ins[1], move |a, b| go(&[*a, *b])),
                3 => ins[0].map3(&ins[1], &ins[2], move |a, b, c| go(&[*a, *b, *c])),
                4 => ins[0].map4(&ins[1], &ins[2], &ins[3], move |a, b, c, d| go(&[*a, *b, *c, *d])),
                5 => ins[0].map5(&ins[1], &ins[2], &ins[3], &ins[4], move |a, b, c, d, e| go(&[*a, *b, *c, *d, *e])),
                _ => ins[0].map6(&ins[1], &ins[2], &ins[3], &ins[4], &ins[5], move |a, b, c, d, e, g| {
                    go(&[*a, *b, *c, *d, *e, *g])
                }),
            };
            let clean = all_clean(w, &hs);
            w.register(NodeH::I(n), RK::MapN { srcs: hs, f }, None, true, clean, hb);
        }
        Action::NewFold { srcs, init, f } => {
            let Some(st) = w.state() else { return skipped(w, "no state") };
            let mut hs = vec![];
            for s in srcs.iter().take(6) {
                match w.pick(Pool::I, *s) {
                    Some(h) => hs.push(h),
                    None => return skipped(w, "no node"),
                }
            }
            let hb = hb_of(w, &hs) + 1;
            if !fits(w, hb) { return skipped(w, "height") }
            let ins: Vec<Incr<i64>> = hs.iter().map(|h| incr_i(w, *h).unwrap()).collect();
            let hid = w.next_hid();
            let n = st.fold(ins, norm(*init), fold_fn(w, hid, *f));
            let clean = all_clean(w, &hs);
            // a fold over no inputs is a plain constant node
            let rk = if hs.is_empty() { RK::Const(MV::I(norm(*init))) } else { RK::Fold { srcs: hs, init: norm(*init), f: *f } };
            w.register(NodeH::I(n), rk, None, true, clean, hb);
        }
        Action::NewZip { a, b } => {
            let (Some(x), Some(y)) = (w.pick(Pool::I, *a), w.pick(Pool::I, *b)) else { return skipped(w, "no node") };
            let hb = hb_of(w, &[x, y]) + 1;
            if !fits(w, hb) { return skipped(w, "height") }
            let n = incr_i(w, x).unwrap().zip(&incr_i(w, y).unwrap());
            // zip of two constants is itself a constant node (no dependencies)
            let rk = {
                let nodes = w.nodes.borrow();
                let konst = |rk: &RK| match rk {
                    RK::Const(MV::I(a)) => Some(*a),
                    RK::BConst(a) => Some(*a),
                    _ => None,
                };
                // (an invalidated constant no longer counts as one)
                let m = w.model.borrow();
                let live = !m.nodes[x].invalid && !m.nodes[y].invalid;
                match (konst(&nodes[x].rk), konst(&nodes[y].rk)) {
                    (Some(a), Some(b)) if live => RK::Const(MV::P(a, b)),
                    _ => RK::Zip { a: x, b: y },
                }
            };
            w.register(NodeH::P(n), rk, None, true, all_clean(w, &[x, y]), hb);
        }
        Action::NewMapRef { src, proj } if *proj == 2 => {
            // the identity view of a scalar node (of any kind: map_with_old, bind, another view, ...)
            let Some(s) = w.pick(Pool::I, *src) else { return skipped(w, "no node") };
            let hb = hb_of(w, &[s]) + 1;
            if !fits(w, hb) { return skipped(w, "height") }
            let input = incr_i(w, s).unwrap();
            let n = input.map_ref(|x: &i64| x);
            w.register(NodeH::I(n), RK::MapRef { src: s, proj: 2 }, None, true, all_clean(w, &[s]), hb);
        }
        Action::NewMapRef { src, proj } => {
            let Some(s) = w.pick(Pool::P, *src) else { return skipped(w, "no node") };
            let hb = hb_of(w, &[s]) + 1;
            if !fits(w, hb) { return skipped(w, "height") }
            let input = incr_p(w, s).unwrap();
            let n = if *proj == 0 { input.map_ref(|p: &Pair| &p.0) } else { input.map_ref(|p: &Pair| &p.1) };
            w.register(NodeH::I(n), RK::MapRef { src: s, proj: *proj }, None, true, all_clean(w, &[s]), hb);
        }
        Action::NewZipQ { a, b } => {
            let (Some(x), Some(y)) = (w.pick(Pool::P, *a), w.pick(Pool::I, *b)) else { return skipped(w, "no node") };
            let hb = hb_of(w, &[x, y]) + 1;
            if !fits(w, hb) { return skipped(w, "height") }
            let n = incr_p(w, x).unwrap().zip(&incr_i(w, y).unwrap());
            // zip of two (valid) constants is itself a constant node
            let rk = {
                let nodes = w.nodes.borrow();
                let m = w.model.borrow();
                let live = !m.nodes[x].invalid && !m.nodes[y].invalid;
                let kb = match &nodes[y].rk {
                    RK::Const(MV::I(b)) => Some(*b),
                    RK::BConst(b) => Some(*b),
                    _ => None,
                };
                match (&nodes[x].rk, kb) {
                    (RK::Const(MV::P(a1, a2)), Some(b)) if live => RK::Const(MV::Q(*a1, *a2, b)),
                    _ => RK::ZipQ { a: x, b: y },
                }
            };
            w.register(NodeH::Q(n), rk, None, true, all_clean(w, &[x, y]), hb);
        }
        Action::NewMapRefQ { src } => {
            let Some(s) = w.pick(Pool::Q, *src) else { return skipped(w, "no node") };
            let hb = hb_of(w, &[s]) + 1;
            if !fits(w, hb) { return skipped(w, "height") }
            let Some(NodeH::Q(input)) = w.node_h(s) else { return skipped(w, "no node") };
            let n = input.map_ref(|t: &Trip| &t.0);
            w.register(NodeH::P(n), RK::MapRefQ { src: s }, None, true, all_clean(w, &[s]), hb);
        }
        Action::NewMapWithOld { src, f } => {
            let Some(s) = w.pick(Pool::I, *src) else { return skipped(w, "no node") };
            let hb = hb_of(w, &[s]) + 1;
            if !fits(w, hb) { return skipped(w, "height") }
            let input = incr_i(w, s).unwrap();
            let hid = w.next_hid();
            let n = input.map_with_old(with_old_fn(w, hid, *f));
            w.register(NodeH::I(n), RK::MapWithOld { src: s, f: *f }, None, true, all_clean(w, &[s]), hb);
        }
        Action::NewDependOn { a, b, pool_b } => {
            let (Some(x), Some(y)) = (w.pick(Pool::I, *a), w.pick(*pool_b, *b)) else { return skipped(w, "no node") };
            let hb = hb_of(w, &[x, y]) + 1;
            if !fits(w, hb) { return skipped(w, "height") }
            let xi = incr_i(w, x).unwrap();
            let n = match w.node_h(y).unwrap() {
                NodeH::I(yi) => xi.depend_on(&yi),
                NodeH::P(yp) => xi.depend_on(&yp),
                NodeH::Q(yq) => xi.depend_on(&yq),
            };
            w.register(NodeH::I(n), RK::DependOn { a: x, b: y }, None, true, all_clean(w, &[x, y]), hb);
        }
        Action::NewBind { lhs, body } => body::new_bind(w, *lhs, body),
        Action::SetCutoff { node, pool, c } => {
            let Some(h) = w.pick(*pool, *node) else { return skipped(w, "no node") };
            do_set_cutoff(w, h, *c);
        }
        Action::Write { var, op } => do_write(w, *var, *op, None),
        Action::Observe { node, pool } => do_observe(w, *pool, *node),
        Action::CloneObs { obs } => {
            let Some(oid) = w.pick_obs(*obs) else { return skipped(w, "no observer") };
            let c = w.live_clone(oid, 0).unwrap();
            let h = w.obs.borrow()[oid].clones[c].as_ref().unwrap().clone_handle();
            let mut o = w.obs.borrow_mut();
            o[oid].clones.push(Some(h));
            let clone = o[oid].clones.len() - 1;
            drop(o);
            act(w, Act::CloneObs { oid, clone });
        }
        Action::DropObs { obs, clone } => do_drop_obs(w, *obs, *clone),
        Action::Disallow { obs } => do_disallow(w, *obs),
        Action::Subscribe { obs, h } => {
            let Some(oid) = w.pick_obs(*obs) else { return skipped(w, "no observer") };
            do_subscribe(w, oid, h.clone());
        }
        Action::Unsub { obs, sub } => do_unsub(w, *obs, *sub),
        Action::StateUnsub { sub } => do_state_unsub(w, *sub),
        Action::OnUpdate { node, pool } => {
            let Some(h) = w.pick(*pool, *node) else { return skipped(w, "no node") };
            let nh = w.nhandlers.get();
            w.nhandlers.set(nh + 1);
            match w.node_h(h).unwrap() {
                NodeH::I(n) => n.on_update(make_node_handler::<i64>(w, nh)),
                NodeH::P(n) => n.on_update(make_node_handler::<Pair>(w, nh)),
                NodeH::Q(n) => n.on_update(make_node_handler::<Trip>(w, nh)),
            }
            act(w, Act::OnUpdate { hid: h, nh });
        }
        Action::DropNode { node, pool } => {
            let Some(h) = w.pick(*pool, *node) else { return skipped(w, "no node") };
            do_drop_node(w, h);
        }
        Action::DropVar { var } => do_drop_var(w, *var),
        Action::Memoize { src } => {
            let Some(st) = w.state() else { return skipped(w, "no state") };
            let pool = w.clean_pool();
            if pool.is_empty() { return skipped(w, "no node") }
            let s = pool[*src % pool.len()];
            let input = incr_i(w, s).unwrap();
            let m = w.memos.borrow().len();
            let fresh_flag: Rc<Cell<Option<Hid>>> = Rc::new(Cell::new(None));
            let weak = Rc::downgrade(w);
            let ff = fresh_flag.clone();
            let underlying = move |key: i64| -> Incr<i64> {
                let w = weak.upgrade().expect("memo fn outlived the world");
                // a memoised constructor is user code too: a crash point when it runs inside stabilise
                w.crash_point();
                let hid = w.next_hid();
                let mut lg = logged(&w, hid, vec![]);
                let n = input.map(move |x: &i64| {
                    let r = norm(*x + key);
                    lg(vec![MV::I(*x)], MV::I(r));
                    r
                });
                let (clean, hb) = {
                    let nodes = w.nodes.borrow();
                    (nodes[s].clean, nodes[s].hb + 1)
                };
                // memo nodes belong to the scope weak_memoize_fn was called in: the top level
                w.register(NodeH::I(n.clone()), RK::Memo { m, key, src: s }, None, false, clean, hb);
                w.memos.borrow_mut()[m].made.push((key, hid, n.weak()));
                ff.set(Some(hid));
                n
            };
            // weak_memoize_fn wants Clone; share the closure state behind an Rc
            let shared = Rc::new(RefCell::new(underlying));
            let sh = shared.clone();
            let memo = st.weak_memoize_fn(move |k: i64| (sh.borrow_mut())(k));
            let boxed: Box<dyn MemoF> = Box::new(memo);
            w.memos.borrow_mut().push(MemoEntry {
                f: Some(Rc::new(RefCell::new(boxed))),
                src: s,
                made: vec![],
                fresh_flag,
                local: None,
            });
            act(w, Act::Memoize { m, src: s });
        }
        Action::MemoCall { m, key } => {
            let live: Vec<usize> = w.memos.borrow().iter().enumerate().filter(|(_, e)| e.f.is_some()).map(|(i, _)| i).collect();
            if live.is_empty() { return skipped(w, "no memo") }
            let mi = live[*m % live.len()];
            let f = w.memos.borrow()[mi].f.clone().unwrap();
            // a function memoised inside a run of a bind that has since re-run: only ask it for a
            // key whose node is still alive (a fresh node would be born in a dead scope)
            if let Some((b, g)) = w.memos.borrow()[mi].local {
                // (nor when the bind is gone altogether: the engine refuses, deliberately, to run
                // a constructor in a scope that no longer exists)
                let current = w.model.borrow().bind_run_is_current(b, g) && w.nodes.borrow()[b].weak.strong_count() > 0;
                let k3 = key.rem_euclid(3);
                let alive = w.memos.borrow()[mi].made.iter().any(|(k, _, wk)| *k == k3 && wk.strong_count() > 0);
                if !current && !alive { return skipped(w, "memo of a superseded bind run") }
            }
            // odd keys go through a fresh clone of the memoised function, as user code may
            let f = if key.rem_euclid(2) == 1 { Rc::new(RefCell::new(f.borrow().clone_box())) } else { f };
            let (n, hid, fresh, prev_alive) = memo_call(w, mi, &f, *key);
            // the driver keeps the returned handle as an ordinary top-level node handle
            let mut nodes = w.nodes.borrow_mut();
            if hid != usize::MAX && nodes[hid].h.is_none() {
                nodes[hid].h = Some(NodeH::I(n));
            }
            drop(nodes);
            act(w, Act::MemoCall { m: mi, key: key.rem_euclid(3), hid, fresh, prev_alive });
        }
        Action::DropMemo { m } => {
            let live: Vec<usize> = w.memos.borrow().iter().enumerate().filter(|(_, e)| e.f.is_some()).map(|(i, _)| i).collect();
            if live.is_empty() { return skipped(w, "no memo") }
            let mi = live[*m % live.len()];
            let f = w.memos.borrow_mut()[mi].f.take();
            drop(f);
            act(w, Act::DropMemo { m: mi });
        }
        Action::Stabilise => {
            if in_cb { return skipped(w, "nested") }
            do_stabilise(w);
        }
        Action::StabiliseUntilStable { max } => {
            if in_cb { return skipped(w, "nested") }
            let Some(st) = w.state() else { return skipped(w, "no state") };
            let mut n = 0;
            loop {
                let stable = st.is_stable();
                act(w, Act::IsStable { res: stable });
                if stable || n >= *max { break }
                do_stabilise(w);
                n += 1;
            }
        }
        Action::IsStable => {
            let Some(st) = w.state() else { return skipped(w, "no state") };
            let res = st.is_stable();
            act(w, Act::IsStable { res });
        }
        Action::SetMaxHeight { n } => {
            let Some(st) = w.state() else { return skipped(w, "no state") };
            if in_cb { return skipped(w, "inside a callback") }
            // always legal and never tighter than the limit the histories are generated for (128):
            // tight limits are the business of the limits engine (C19); here the reconfiguration
            // itself, at an arbitrary point, is the event of interest
            let limit = 128 + (*n % 64);
            st.set_max_height_allowed(limit);
            act(w, Act::SetMaxHeight { n: limit });
        }
        Action::X(_) => {}
        Action::Teardown { .. } | Action::DropState => {
            // handled by the run loop (terminal)
        }
    }
}

/// Calls memoised function `mi` through the given clone of it. Returns (node, hid, fresh);
/// hid is usize::MAX when the returned node is not one the underlying function made for this key.
pub fn memo_call(w: &Rc<World>, mi: usize, f: &MemoFn, key: i64) -> (Incr<i64>, Hid, bool, Option<Hid>) {
    let key = key.rem_euclid(3);
    // is a node made earlier for this key still referenced anywhere?
    let prev_alive = w.memos.borrow()[mi].made.iter().rev().find(|(k, _, wk)| *k == key && wk.strong_count() > 0).map(|(_, h, _)| *h);
    let flag = w.memos.borrow()[mi].fresh_flag.clone();
    flag.set(None);
    let n = (f.borrow_mut())(key);
    let fresh = flag.get();
    let hid = match fresh {
        Some(h) => h,
        None => {
            let memos = w.memos.borrow();
            memos[mi]
                .made
                .iter()
                .rev()
                .find(|(k, _, wk)| *k == key && wk.upgrade().map_or(false, |x| x == n))
                .map(|(_, h, _)| *h)
                .unwrap_or(usize::MAX)
        }
    };
    (n, hid, fresh.is_some(), prev_alive)
}

pub fn do_stabilise(w: &Rc<World>) {
    let Some(st) = w.state() else { return skipped(w, "no state") };
    let round = w.model.borrow().rounds_started();
    w.log(Ev::RoundStart { round });
    w.in_stabilise.set(true);
    w.handler_phase.set(false);
    // if this unwinds, in_stabilise stays true on purpose: the state is poisoned (C13)
    st.stabilise();
    w.in_stabilise.set(false);
    w.log(Ev::RoundEnd { round });
    let alive: Vec<Hid> = w.nodes.borrow().iter().enumerate().filter(|(_, n)| n.weak.strong_count() > 0).map(|(i, _)| i).collect();
    w.log(Ev::Alive { hids: alive });
}

pub fn do_set_cutoff(w: &Rc<World>, h: Hid, c: CutoffSpec) {
    match w.node_h(h).unwrap() {
        NodeH::I(n) => n.set_cutoff(make_cutoff::<i64>(w, h, c)),
        NodeH::P(n) => n.set_cutoff(make_cutoff::<Pair>(w, h, c)),
        NodeH::Q(n) => n.set_cutoff(make_cutoff::<Trip>(w, h, c)),
    }
    act(w, Act::SetCutoff { hid: h, c });
}

pub fn do_write(w: &Rc<World>, var: usize, op: WriteOp, arg: Option<i64>) {
    let Some(vid) = w.pick_var(var) else { return skipped(w, "no var") };
    // resolve "write f(arg)" into a plain set
    let op = match (op, arg) {
        (WriteOp::Update(f), Some(a)) => WriteOp::Set(f.ap(a)),
        (op, _) => op,
    };
    let vars = w.vars.borrow();
    let (ret, get_after) = match vars[vid].h.as_ref().unwrap() {
        VarH::I(v) => {
            let ret = match op {
                WriteOp::Set(x) | WriteOp::SetB(x) => { v.set(norm(x)); None }
                WriteOp::Update(f) => { v.update(|x| f.ap(x)); None }
                WriteOp::Modify(f) => { v.modify(|x| *x = f.ap(*x)); None }
                WriteOp::Replace(x) => Some(MV::I(v.replace(norm(x)))),
                WriteOp::ReplaceWith(f) => Some(MV::I(v.replace_with(|x| f.ap(*x)))),
            };
            (ret, MV::I(v.get()))
        }
        VarH::P(v) => {
            let ret = match op {
                WriteOp::Set(x) => { v.modify(|p| p.0 = norm(x)); None }
                WriteOp::SetB(x) => { v.modify(|p| p.1 = norm(x)); None }
                WriteOp::Update(f) => { v.update(|p| (f.ap(p.0), p.1)); None }
                WriteOp::Modify(f) => { v.modify(|p| p.0 = f.ap(p.0)); None }
                WriteOp::Replace(x) => Some(v.replace_with(|p| (norm(x), p.1)).mv()),
                WriteOp::ReplaceWith(f) => Some(v.replace_with(|p| (f.ap(p.0), p.1)).mv()),
            };
            (ret, v.get().mv())
        }
    };
    drop(vars);
    act(w, Act::Write { vid, op, ret, get_after: Some(get_after) });
}

pub fn do_observe(w: &Rc<World>, pool: Pool, idx: usize) {
    let Some(hid) = w.pick(pool, idx) else { return skipped(w, "no node") };
    let in_cb = w.cur_ctx() != Ctx::Top;
    let clean = w.nodes.borrow()[hid].clean;
    if in_cb && !clean {
        return skipped(w, "observe tainted node from callback");
    }
    if !clean && !w.model.borrow().can_observe(hid) {
        return skipped(w, "defining bind not necessary");
    }
    let o = match w.node_h(hid).unwrap() {
        NodeH::I(n) => ObsH::I(n.observe()),
        NodeH::P(n) => ObsH::P(n.observe()),
        NodeH::Q(n) => ObsH::Q(n.observe()),
    };
    let mut obs = w.obs.borrow_mut();
    obs.push(ObsEntry { hid, clones: vec![Some(o)] });
    let oid = obs.len() - 1;
    drop(obs);
    if matches!(w.nodes.borrow()[hid].rk, RK::Bind { .. }) {
        w.last_bind_obs.set(Some(oid));
    }
    act(w, Act::Observe { oid, hid });
}

pub fn do_drop_obs(w: &Rc<World>, obs: usize, clone: usize) {
    let Some(oid) = w.pick_obs(obs) else { return skipped(w, "no observer") };
    let c = w.live_clone(oid, clone).unwrap();
    let last = w.obs.borrow()[oid].clones.iter().filter(|x| x.is_some()).count() == 1;
    if last && !w.model.borrow().can_end_observer(oid) {
        return skipped(w, "a pending observer relies on this one");
    }
    let h = w.obs.borrow_mut()[oid].clones[c].take();
    act(w, Act::DropObs { oid, clone: c });
    drop(h);
}

pub fn do_disallow(w: &Rc<World>, obs: usize) {
    let Some(oid) = w.pick_obs(obs) else { return skipped(w, "no observer") };
    disallow_oid(w, oid);
}
pub fn disallow_oid(w: &Rc<World>, oid: usize) {
    let Some(c) = w.live_clone(oid, 0) else { return skipped(w, "no handle") };
    if !w.model.borrow().can_end_observer(oid) {
        return skipped(w, "a pending observer relies on this one");
    }
    {
        let obs = w.obs.borrow();
        obs[oid].clones[c].as_ref().unwrap().disallow();
    }
    act(w, Act::Disallow { oid });
}

pub fn do_subscribe(w: &Rc<World>, oid: usize, h: HandlerSpec) {
    let Some(c) = w.live_clone(oid, 0) else { return skipped(w, "no handle") };
    let sid = w.subs.borrow().len();
    w.api.set("subscribe");
    let res = {
        let obs = w.obs.borrow();
        match obs[oid].clones[c].as_ref().unwrap() {
            ObsH::I(o) => o.try_subscribe(make_handler::<i64>(w, sid, oid, h)),
            ObsH::P(o) => o.try_subscribe(make_handler::<Pair>(w, sid, oid, h)),
            ObsH::Q(o) => o.try_subscribe(make_handler::<Trip>(w, sid, oid, h)),
        }
    };
    w.api.set("");
    match res {
        Ok(token) => {
            w.subs.borrow_mut().push(SubEntry { oid, token });
            act(w, Act::Subscribe { oid, sid: Some(sid), err: None });
        }
        Err(e) => act(w, Act::Subscribe { oid, sid: None, err: Some(conv_err(e)) }),
    }
}

pub fn do_unsub(w: &Rc<World>, obs: usize, sub: usize) {
    let Some(oid) = w.pick_obs(obs) else { return skipped(w, "no observer") };
    let n = w.subs.borrow().len();
    if n == 0 { return skipped(w, "no subscription") }
    unsub_via(w, oid, sub % n);
}
pub fn unsub_via(w: &Rc<World>, oid: usize, sid: usize) {
    let Some(c) = w.live_clone(oid, 0) else { return skipped(w, "no handle") };
    let token = w.subs.borrow()[sid].token;
    w.api.set("unsubscribe");
    let res = {
        let obs = w.obs.borrow();
        obs[oid].clones[c].as_ref().unwrap().unsubscribe(token)
    };
    w.api.set("");
    act(w, Act::Unsub { via_oid: oid, sid, res });
}

pub fn do_state_unsub(w: &Rc<World>, sub: usize) {
    let Some(st) = w.state() else { return skipped(w, "no state") };
    let n = w.subs.borrow().len();
    if n == 0 { return skipped(w, "no subscription") }
    let sid = sub % n;
    let token = w.subs.borrow()[sid].token;
    w.api.set("unsubscribe");
    st.unsubscribe(token);
    w.api.set("");
    act(w, Act::StateUnsub { sid });
}

pub fn do_drop_node(w: &Rc<World>, h: Hid) {
    let handle = w.nodes.borrow_mut()[h].h.take();
    act(w, Act::DropNode { hid: h });
    drop(handle);
}

pub fn do_drop_var(w: &Rc<World>, var: usize) {
    let Some(vid) = w.pick_var(var) else { return skipped(w, "no var") };
    let handle = w.vars.borrow_mut()[vid].h.take();
    act(w, Act::DropVar { vid });
    drop(handle);
}

/// Re-entrant effects (from inside callbacks).
pub fn exec_effect(w: &Rc<World>, e: &Effect, arg: Option<MV>) {
    let ctx = w.cur_ctx();
    match e {
        Effect::Write { var, op } => do_write(w, *var, *op, None),
        Effect::WriteArg { var, f } => do_write(w, *var, WriteOp::Update(*f), Some(arg.map(|a| a.i()).unwrap_or(0))),
        Effect::GetVar { var } => {
            let Some(vid) = w.pick_var(*var) else { return skipped(w, "no var") };
            let val = match w.vars.borrow()[vid].h.as_ref().unwrap() {
                VarH::I(v) => {
                    let _ = v.was_changed_during_stabilisation();
                    MV::I(v.get())
                }
                VarH::P(v) => v.get().mv(),
            };
            act(w, Act::GetVar { vid, val });
        }
        Effect::ReadObs { obs } => {
            let Some(oid) = w.pick_obs(*obs) else { return skipped(w, "no observer") };
            let c = w.live_clone(oid, 0).unwrap();
            let res = w.obs.borrow()[oid].clones[c].as_ref().unwrap().read();
            act(w, Act::ReadObs { oid, clone: c, res });
        }
        Effect::Observe { node } => do_observe(w, Pool::Any, *node),
        Effect::ObserveSub { node } => {
            let before = w.obs.borrow().len();
            do_observe(w, Pool::Any, *node);
            let after = w.obs.borrow().len();
            if after > before {
                do_subscribe(w, after - 1, HandlerSpec::default());
            }
        }
        Effect::DropObs { obs, clone } => do_drop_obs(w, *obs, *clone),
        Effect::Disallow { obs } => do_disallow(w, *obs),
        Effect::DisallowSelf => match ctx {
            Ctx::Handler(sid) => {
                let oid = w.subs.borrow()[sid].oid;
                disallow_oid(w, oid)
            }
            _ => skipped(w, "not in handler"),
        },
        Effect::Subscribe { obs, h } => {
            let Some(oid) = w.pick_obs(*obs) else { return skipped(w, "no observer") };
            // a different observer than the one whose handler is running (that is SubscribeSelf)
            if let Ctx::Handler(sid) = ctx {
                if w.subs.borrow()[sid].oid == oid { return skipped(w, "same observer") }
            }
            do_subscribe(w, oid, (**h).clone())
        }
        Effect::SubscribeSelf { h } => match ctx {
            Ctx::Handler(sid) => {
                let oid = w.subs.borrow()[sid].oid;
                do_subscribe(w, oid, (**h).clone())
            }
            _ => skipped(w, "not in handler"),
        },
        Effect::Unsub { obs, sub } => {
            let Some(oid) = w.pick_obs(*obs) else { return skipped(w, "no observer") };
            let n = w.subs.borrow().len();
            if n == 0 { return skipped(w, "no subscription") }
            let sid = *sub % n;
            if let Ctx::Handler(me) = ctx {
                let my_oid = w.subs.borrow()[me].oid;
                // same-observer re-entrancy is its own labelled fault kind (UnsubSelf/UnsubSibling)
                if w.subs.borrow()[sid].oid == my_oid && oid == my_oid { return skipped(w, "same observer") }
            }
            unsub_via(w, oid, sid)
        }
        Effect::UnsubSelf => match ctx {
            Ctx::Handler(sid) => {
                let oid = w.subs.borrow()[sid].oid;
                unsub_via(w, oid, sid)
            }
            _ => skipped(w, "not in handler"),
        },
        Effect::UnsubSibling { k } => match ctx {
            Ctx::Handler(sid) => {
                let oid = w.subs.borrow()[sid].oid;
                let sibs: Vec<usize> = w.subs.borrow().iter().enumerate().filter(|(i, s)| s.oid == oid && *i != sid).map(|(i, _)| i).collect();
                if sibs.is_empty() { return skipped(w, "no sibling") }
                unsub_via(w, oid, sibs[*k % sibs.len()])
            }
            _ => skipped(w, "not in handler"),
        },
        Effect::StateUnsub { sub } => {
            if let Ctx::Handler(me) = ctx {
                let n = w.subs.borrow().len();
                if n > 0 && w.subs.borrow()[*sub % n].oid == w.subs.borrow()[me].oid {
                    return skipped(w, "same observer");
                }
            }
            do_state_unsub(w, *sub)
        }
        Effect::DropVar { var } => do_drop_var(w, *var),
        Effect::WriteThenDropVar { var, op } => {
            do_write(w, *var, *op, None);
            do_drop_var(w, *var)
        }
        Effect::DropNode { node } => {
            let Some(h) = w.pick(Pool::Any, *node) else { return skipped(w, "no node") };
            do_drop_node(w, h)
        }
        Effect::IsStable => {
            let Some(st) = w.state() else { return skipped(w, "no state") };
            let res = st.is_stable();
            // further read-only public calls made from inside callbacks: they must return (C04)
            let _ = st.is_stabilising();
            let _ = st.stats();
            if w.dot_reads.get() {
                let _ = st.weak().save_dot_to_string();
            }
            act(w, Act::IsStable { res });
        }
        Effect::NestedStabilise => {
            let Some(st) = w.state() else { return skipped(w, "no state") };
            w.log(Ev::Note("nested stabilise".into()));
            st.stabilise();
        }
    }
}

pub fn body_arc(b: &BodySpec) -> Arc<BodySpec> {
    Arc::new(b.clone())
}

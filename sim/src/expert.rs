//! Expert engine (C14): join, bind and dynamic-sum built with the public expert API, driven by
//! seeded histories, checked against reference values and a callback-discipline monitor.

use std::cell::{Cell, RefCell};
use std::collections::BTreeMap;
use std::panic::{catch_unwind, AssertUnwindSafe};
use std::rc::Rc;

use incremental::expert::{Dependency, Node, WeakNode};
use incremental::{Incr, IncrState, Observer, Value, Var};
use serde::{Deserialize, Serialize};

use crate::plan::*;
use crate::rng::{Fnv, Rng};
use crate::run::{panic_message, RunOutput};
use crate::trace::Violation;
use crate::xplan::XAct;

#[derive(Serialize, Deserialize, Clone, Debug)]
pub struct ExpertCfg {
    /// dependency configurations of the dynamic sum: lists of child indices (0..6), duplicates allowed
    pub configs: Vec<Vec<usize>>,
}

const N_CHILD: usize = 7;

struct DepRec {
    serial: u64,
    child: (usize, u64),
    dep: Dependency<i64>,
}

struct Shared {
    log: RefCell<Vec<String>>,
    viol: RefCell<Vec<Violation>>,
    slots: RefCell<BTreeMap<u64, i64>>,
    deps: RefCell<Vec<DepRec>>,
    next_serial: Cell<u64>,
    sum_recomputes_this_round: Cell<u32>,
    callbacks: Cell<u64>,
    b_gen: Cell<u64>,
    cur_inner: RefCell<Option<Incr<i64>>>,
    pending_poke: Cell<bool>,
    pending_kill: Cell<bool>,
    poked_this_round: Cell<bool>,
    hook_armed: Cell<Option<(usize, i64)>>,
    in_stabilise: Cell<bool>,
    hook_wrote: Cell<Option<(usize, i64)>>,
    hook_writes: Cell<u64>,
    /// the dynamic sum is needed by an observer in the stabilise that is running
    sum_needed_now: Cell<bool>,
    sum_ever_ran: Cell<bool>,
    /// make_stale was called on the (already computed) sum while nothing needed it: the next
    /// stabilise that needs it must recompute it
    stale_owed: Cell<bool>,
    killed: Cell<bool>,
    invocations: Cell<u64>,
    removed_invalid_dep: Cell<u64>,
    added_on_computed_child: Cell<u64>,
    removed_duplicate: Cell<u64>,
    fire_all_rounds: Cell<u64>,
}

impl Shared {
    fn ev(&self, s: String) {
        self.log.borrow_mut().push(s);
    }
    fn bad(&self, rule: &'static str, detail: String) {
        let at = self.log.borrow().len();
        self.viol.borrow_mut().push(Violation { property: "C14", rule, at, detail });
    }
}

/// join built on the expert API, as in the crate's own tests
fn join<T: Value>(incr: &Incr<Incr<T>>) -> Incr<T> {
    let prev_rhs: Rc<RefCell<Option<Dependency<T>>>> = Rc::new(None.into());
    let state = incr.state();
    let join = Node::<T>::new(&state, {
        let prev_rhs_ = prev_rhs.clone();
        move || prev_rhs_.borrow().clone().unwrap().value_cloned()
    });
    let join_ = join.weak();
    let lhs_change = incr.map(move |rhs| {
        let dep = join_.add_dependency(rhs);
        let mut prev_rhs_ = prev_rhs.borrow_mut();
        if let Some(prev) = prev_rhs_.take() {
            join_.remove_dependency(prev);
        }
        prev_rhs_.replace(dep);
    });
    join.add_dependency(&lhs_change);
    join.watch()
}

/// bind built on the expert API, as in the crate's own tests
fn ebind<T: Value, R: Value>(incr: Incr<T>, mut f: impl FnMut(&T) -> Incr<R> + 'static) -> Incr<R> {
    let prev_rhs: Rc<RefCell<Option<Dependency<R>>>> = Rc::new(None.into());
    let state = incr.state();
    let join = Node::<R>::new(&state, {
        let prev_rhs_ = prev_rhs.clone();
        move || prev_rhs_.borrow().clone().unwrap().value_cloned()
    });
    let join_ = join.weak();
    let lhs_change = incr.map(move |input| {
        let rhs = f(input);
        let mut prev_rhs_ = prev_rhs.borrow_mut();
        if prev_rhs_.as_ref().map_or(false, |prev| prev.node() == rhs) {
            return;
        }
        let dep = join_.add_dependency(&rhs);
        if let Some(prev) = prev_rhs_.take() {
            join_.remove_dependency(prev);
        }
        prev_rhs_.replace(dep);
    });
    join.add_dependency(&lhs_change);
    join.watch()
}

pub fn gen_plan(seed: u64) -> Plan {
    let mut r = Rng::stream(seed, 1);
    let mut sched = Rng::stream(seed, 3);
    let nconf = 3 + r.below(4);
    let configs: Vec<Vec<usize>> = (0..nconf)
        .map(|_| {
            let n = r.weighted(&[1, 3, 4, 3, 2]);
            let dup = r.chance(1, 3);
            let first = r.below(N_CHILD);
            (0..n).map(|i| if dup && i % 2 == 1 { first } else { r.below(N_CHILD) }).collect()
        })
        .collect();
    let n_actions = r.range(8, 40) as usize;
    let fault_free = r.chance(1, 6);
    let mut acts = vec![XAct::Observe { out: r.below(7) }, XAct::Stabilise];
    while acts.len() < n_actions {
        let a = match r.weighted(&[10, 5, 6, 12, 8, 5, 14, if fault_free { 0 } else { 3 }, if fault_free { 0 } else { 1 }, if fault_free { 0 } else { 2 }, if fault_free { 0 } else { 2 }]) {
            0 => XAct::SetSel { k: r.below(16) },
            1 => XAct::SetOuter { j: r.below(16) },
            2 => XAct::SetBsel { x: r.range(-3, 8) },
            3 => XAct::WriteChild { i: r.below(3), v: r.range(-3, 8) },
            4 => XAct::Observe { out: r.below(7) },
            5 => XAct::DropObs { obs: r.below(16) },
            6 => XAct::Stabilise,
            7 => XAct::Poke,
            8 => XAct::Invalidate,
            9 => XAct::HookArm { i: r.below(3), v: r.range(-3, 8) },
            _ => XAct::TopAdd,
        };
        // biased combination: invalidate the bind-built child and re-select in the same round
        if matches!(a, XAct::SetBsel { .. }) && r.chance(1, 2) {
            acts.push(XAct::SetSel { k: r.below(16) });
        }
        acts.push(a);
    }
    acts.push(XAct::Stabilise);
    acts.push(XAct::Stabilise);
    let knobs = Knobs { hash_seed: sched.next(), tie_break: if sched.chance(25, 100) { Some(sched.next()) } else { None }, max_height: None, crash_at: None, dense_reads: true, audit: true, stop_on: String::new() };
    Plan { engine: "expert".into(), actions: acts.into_iter().map(Action::X).collect(), knobs, extra: serde_json::to_value(ExpertCfg { configs }).unwrap() }
}

struct Refm {
    vars: [i64; 3],
    sel: usize,
    outer: usize,
    bsel: i64,
    killed: bool,
}

impl Refm {
    fn child(&self, i: usize) -> i64 {
        match i {
            0 => self.vars[0],
            1 => self.vars[1],
            2 => self.vars[2],
            3 => norm(self.vars[0] + 1),
            4 => norm(self.vars[1] + self.bsel),
            // a map_ref child: the first component of zip(vars[2], vars[0])
            6 => self.vars[2],
            _ => 5,
        }
    }
    fn inner(&self, j: usize) -> i64 {
        match j % 4 {
            0 => self.vars[0],
            1 => self.vars[2],
            2 => norm(self.vars[0] + 1),
            _ => 7,
        }
    }
    fn sum(&self, cfg: &ExpertCfg) -> i64 {
        let c = &cfg.configs[self.sel % cfg.configs.len()];
        norm(c.iter().map(|i| self.child(*i)).sum())
    }
    /// expected value of output `out`; None = invalid
    fn out(&self, cfg: &ExpertCfg, out: usize) -> Option<i64> {
        match out {
            0 => (!self.killed).then(|| self.sum(cfg)),
            1 => Some(self.inner(self.outer)),
            2 => Some(self.child(self.outer % N_CHILD)),
            3 => (!self.killed).then(|| norm(self.sum(cfg) + 1)),
            4 => (!self.killed).then(|| norm(self.sum(cfg) + self.inner(self.outer))),
            // the poking child always returns 0
            _ => Some(0),
        }
    }
}

pub fn run_on_this_thread(plan: &Plan, keep_trace: bool) -> RunOutput {
    let cfg: ExpertCfg = serde_json::from_value(plan.extra.clone()).expect("expert cfg");
    let knobs = &plan.knobs;
    incremental::verif::reset_ids();
    incremental::verif::set_hash_seed(knobs.hash_seed);
    match knobs.tie_break {
        Some(seed) => {
            let mut rng = Rng::new(seed);
            incremental::verif::set_chooser(Some(Box::new(move |len| rng.below(len))));
        }
        None => incremental::verif::set_chooser(None),
    }
    incremental::verif::set_listener(None);
    let _ = incremental::verif::take_probes();
    let sh = Rc::new(Shared {
        log: RefCell::new(vec![]),
        viol: RefCell::new(vec![]),
        slots: RefCell::new(BTreeMap::new()),
        deps: RefCell::new(vec![]),
        next_serial: Cell::new(0),
        sum_recomputes_this_round: Cell::new(0),
        callbacks: Cell::new(0),
        b_gen: Cell::new(0),
        cur_inner: RefCell::new(None),
        pending_poke: Cell::new(false),
        pending_kill: Cell::new(false),
        poked_this_round: Cell::new(false),
        hook_armed: Cell::new(None),
        in_stabilise: Cell::new(false),
        hook_wrote: Cell::new(None),
        hook_writes: Cell::new(0),
        sum_needed_now: Cell::new(false),
        sum_ever_ran: Cell::new(false),
        stale_owed: Cell::new(false),
        killed: Cell::new(false),
        invocations: Cell::new(0),
        removed_invalid_dep: Cell::new(0),
        added_on_computed_child: Cell::new(0),
        removed_duplicate: Cell::new(0),
        fire_all_rounds: Cell::new(0),
    });
    let mut out = RunOutput::default();
    let mut refm = Refm { vars: [1, 2, 3], sel: 0, outer: 0, bsel: 0, killed: false };
    let mut rounds = 0u64;
    let mut reads = 0u64;
    let mut audits = 0u64;
    let mut actions_done = 0u64;

    let body = catch_unwind(AssertUnwindSafe(|| {
        let state = IncrState::new();
        let ws = state.weak();
        let vars: Vec<Var<i64>> = refm.vars.iter().map(|v| state.var(*v)).collect();
        let sel: Var<usize> = state.var(0usize);
        let outer: Var<usize> = state.var(0usize);
        let bsel: Var<i64> = state.var(0i64);
        let poke: Var<i64> = state.var(0i64);
        let kill: Var<i64> = state.var(0i64);
        let shared_child = vars[0].map(|x| norm(*x + 1));
        let konst = state.constant(5i64);
        // a child that is a projection (map_ref): it passes change notifications on to its
        // dependants itself
        let ref_child: Incr<i64> = vars[2].watch().zip(&vars[0].watch()).map_ref(|p: &(i64, i64)| &p.0);
        // the bind whose closure builds the invalidatable child
        let b_main = {
            let v1 = vars[1].watch();
            let sh2 = sh.clone();
            bsel.bind(move |s: &i64| {
                sh2.invocations.set(sh2.invocations.get() + 1);
                let s = *s;
                let n = v1.map(move |x| norm(*x + s));
                sh2.b_gen.set(sh2.b_gen.get() + 1);
                *sh2.cur_inner.borrow_mut() = Some(n.clone());
                sh2.ev(format!("bind ran gen={} s={}", sh2.b_gen.get(), s));
                n
            })
        };
        b_main.set_cutoff(incremental::Cutoff::Never);
        // ---- dynamic sum
        let sum: Node<i64> = Node::new_(
            &ws,
            {
                let sh = sh.clone();
                move || {
                    sh.invocations.set(sh.invocations.get() + 1);
                    sh.sum_recomputes_this_round.set(sh.sum_recomputes_this_round.get() + 1);
                    sh.sum_ever_ran.set(true);
                    sh.stale_owed.set(false);
                    let deps = sh.deps.borrow();
                    let slots = sh.slots.borrow();
                    let mut total = 0i64;
                    for d in deps.iter() {
                        let actual = d.dep.value_cloned();
                        match slots.get(&d.serial) {
                            Some(v) if *v == actual => {}
                            other => sh.bad(
                                "callback-discipline",
                                format!("dynamic sum recomputed while the change callback of dependency #{} (child {:?}) last delivered {:?} but the child's value is {}", d.serial, d.child, other, actual),
                            ),
                        }
                        total += slots.get(&d.serial).copied().unwrap_or(0);
                    }
                    let v = norm(total);
                    sh.ev(format!("sum recompute deps={} -> {}", deps.len(), v));
                    v
                }
            },
            {
                let sh = sh.clone();
                let hook_vars: Vec<Var<i64>> = vars.clone();
                move |b| {
                    sh.ev(format!("sum observability {}", b));
                    // a callback made from inside stabilise: a write it makes is deferred
                    if sh.in_stabilise.get() {
                        if let Some((i, v)) = sh.hook_armed.take() {
                            sh.ev(format!("observability callback writes child {} := {}", i, v));
                            hook_vars[i].set(v);
                            sh.hook_wrote.set(Some((i, v)));
                            sh.hook_writes.set(sh.hook_writes.get() + 1);
                        }
                    }
                }
            },
        );
        let sum_weak: WeakNode<i64> = sum.weak();
        let child_incr = {
            let vars: Vec<Incr<i64>> = vars.iter().map(|v| v.watch()).collect();
            let shared_child = shared_child.clone();
            let konst = konst.clone();
            let ref_child = ref_child.clone();
            let sh = sh.clone();
            move |i: usize| -> (Incr<i64>, u64) {
                match i {
                    0 | 1 | 2 => (vars[i].clone(), 0),
                    3 => (shared_child.clone(), 0),
                    6 => (ref_child.clone(), 0),
                    4 => (sh.cur_inner.borrow().clone().expect("bind has not run"), sh.b_gen.get()),
                    _ => (konst.clone(), 0),
                }
            }
        };
        let lhs_change = {
            let sh = sh.clone();
            let cfg = cfg.clone();
            let sum_weak = sum_weak.clone();
            sel.watch().map2(&b_main, move |k: &usize, _b: &i64| {
                sh.invocations.set(sh.invocations.get() + 1);
                // once the sum has been invalidated its dependencies are gone with it
                if sh.killed.get() {
                    return 0i64;
                }
                let wanted: Vec<(usize, u64)> = cfg.configs[*k % cfg.configs.len()].iter().map(|i| (*i, if *i == 4 { sh.b_gen.get() } else { 0 })).collect();
                // multiset difference
                let mut keep: Vec<bool> = vec![false; sh.deps.borrow().len()];
                let mut to_add: Vec<(usize, u64)> = vec![];
                {
                    let deps = sh.deps.borrow();
                    for w in wanted.iter() {
                        match (0..deps.len()).find(|j| !keep[*j] && deps[*j].child == *w) {
                            Some(j) => keep[j] = true,
                            None => to_add.push(*w),
                        }
                    }
                }
                // add first, then remove (as join/bind do)
                for w in to_add {
                    let (incr, inst) = child_incr(w.0);
                    let serial = sh.next_serial.get();
                    sh.next_serial.set(serial + 1);
                    let sh2 = sh.clone();
                    let dep = sum_weak.add_dependency_with(&incr, move |v: &i64| {
                        sh2.callbacks.set(sh2.callbacks.get() + 1);
                        sh2.slots.borrow_mut().insert(serial, *v);
                        sh2.ev(format!("callback dep#{} <- {}", serial, v));
                    });
                    sh.ev(format!("add dep#{} on child {:?}", serial, (w.0, inst)));
                    sh.added_on_computed_child.set(sh.added_on_computed_child.get() + 1);
                    sh.deps.borrow_mut().push(DepRec { serial, child: (w.0, inst), dep });
                }
                let mut idx = keep.len();
                while idx > 0 {
                    idx -= 1;
                    if !keep[idx] {
                        let rec = sh.deps.borrow_mut().remove(idx);
                        if rec.child.0 == 4 && rec.child.1 != sh.b_gen.get() {
                            sh.removed_invalid_dep.set(sh.removed_invalid_dep.get() + 1);
                        }
                        if sh.deps.borrow().iter().any(|d| d.child == rec.child) {
                            sh.removed_duplicate.set(sh.removed_duplicate.get() + 1);
                        }
                        sh.ev(format!("remove dep#{} on child {:?}", rec.serial, rec.child));
                        sh.slots.borrow_mut().remove(&rec.serial);
                        sum_weak.remove_dependency(rec.dep);
                    }
                }
                0i64
            })
        };
        sum.add_dependency(&lhs_change);
        let controller_out = lhs_change.clone();
        let poke_node = {
            let sh = sh.clone();
            let sum_weak = sum_weak.clone();
            poke.map(move |_x| {
                if sh.pending_poke.replace(false) {
                    sh.ev("make_stale".into());
                    sh.poked_this_round.set(true);
                    if !sh.sum_needed_now.get() && sh.sum_ever_ran.get() {
                        sh.stale_owed.set(true);
                    }
                    sum_weak.make_stale();
                }
                0i64
            })
        };
        sum.add_dependency(&poke_node);
        let poke_out = poke_node.clone();
        let kill_node = {
            let sh = sh.clone();
            let sum_weak = sum_weak.clone();
            kill.map(move |_x| {
                if sh.pending_kill.replace(false) {
                    sh.ev("invalidate".into());
                    sh.killed.set(true);
                    sum_weak.invalidate();
                }
                0i64
            })
        };
        sum.add_dependency(&kill_node);
        // ---- join and expert-bind
        let inners: Vec<Incr<i64>> = vec![vars[0].watch(), vars[2].watch(), shared_child.clone(), state.constant(7i64)];
        let outer_incr: Incr<Incr<i64>> = {
            let inners = inners.clone();
            outer.map(move |j: &usize| inners[*j % 4].clone())
        };
        let joined = join(&outer_incr);
        let ebound = {
            let kids: Vec<Incr<i64>> = vec![vars[0].watch(), vars[1].watch(), vars[2].watch(), shared_child.clone(), b_main.clone(), konst.clone(), ref_child.clone()];
            ebind(outer.watch(), move |j: &usize| kids[*j % N_CHILD].clone())
        };
        let outputs: Vec<Incr<i64>> = vec![
            sum.watch(),
            joined.clone(),
            ebound,
            sum.watch().map(|x| norm(*x + 1)),
            sum.watch().map2(&joined, |a, b| norm(*a + *b)),
            // the child that calls make_stale, observable on its own: it then runs (and pokes
            // the sum) while the sum itself is not needed
            poke_out,
            // the child that edits the sum's dependencies, observable on its own: it then edits
            // them while the sum itself is not needed
            controller_out,
        ];
        let mut observers: Vec<Option<(usize, Observer<i64>, bool)>> = vec![];
        let mut top_adds = 0u32;

        for a in plan.actions.iter() {
            let Action::X(a) = a else { continue };
            actions_done += 1;
            sh.ev(format!("ACT {:?}", a));
            let mut stabilised = false;
            match a {
                XAct::SetSel { k } => {
                    refm.sel = *k;
                    sel.set(*k);
                }
                XAct::SetOuter { j } => {
                    refm.outer = *j;
                    outer.set(*j);
                }
                XAct::SetBsel { x } => {
                    refm.bsel = norm(*x);
                    bsel.set(norm(*x));
                }
                XAct::WriteChild { i, v } => {
                    refm.vars[*i % 3] = norm(*v);
                    vars[*i % 3].set(norm(*v));
                }
                XAct::HookArm { i, v } => sh.hook_armed.set(Some((*i % 3, norm(*v)))),
                XAct::TopAdd => {
                    if top_adds < 3 && !refm.killed {
                        top_adds += 1;
                        let extra = state.constant(100 + top_adds as i64);
                        let _dep = sum.add_dependency(&extra);
                        sh.ev("top-level add_dependency on a fresh constant".into());
                    }
                }
                XAct::Poke => {
                    sh.pending_poke.set(true);
                    poke.update(|x| x + 1);
                }
                XAct::Invalidate => {
                    sh.pending_kill.set(true);
                    kill.update(|x| x + 1);
                }
                XAct::Observe { out } => {
                    let o = outputs[*out % outputs.len()].observe();
                    observers.push(Some((*out % outputs.len(), o, false)));
                }
                XAct::DropObs { obs } => {
                    let live: Vec<usize> = observers.iter().enumerate().filter(|(_, o)| o.is_some()).map(|(i, _)| i).collect();
                    if !live.is_empty() {
                        let i = live[*obs % live.len()];
                        observers[i] = None;
                    }
                }
                XAct::Stabilise => {
                    sh.sum_recomputes_this_round.set(0);
                    sh.poked_this_round.set(false);
                    let sum_needed = observers.iter().flatten().any(|(o, _, _)| matches!(o, 0 | 3 | 4));
                    let poke_pending = sh.pending_poke.get();
                    let owed = sh.stale_owed.get();
                    sh.sum_needed_now.set(sum_needed);
                    sh.in_stabilise.set(true);
                    state.stabilise();
                    sh.in_stabilise.set(false);
                    rounds += 1;
                    stabilised = true;
                    for o in observers.iter_mut().flatten() {
                        o.2 = true;
                    }
                    if sh.killed.get() {
                        refm.killed = true;
                    }
                    let n = sh.sum_recomputes_this_round.get();
                    if n > 1 {
                        sh.bad("double-recompute", format!("the dynamic sum was recomputed {} times in one stabilise", n));
                    }
                    // C05: nothing needed the sum when stabilise was called, and nothing does now
                    let needed_after = observers.iter().flatten().any(|(o, _, _)| matches!(o, 0 | 3 | 4));
                    if !sum_needed && !needed_after && n > 0 {
                        sh.viol.borrow_mut().push(Violation { property: "C05", rule: "expert-node-ran-unneeded", at: sh.log.borrow().len(), detail: format!("the dynamic sum was recomputed {} time(s) in a stabilise although no live observer needs it", n) });
                    }
                    if owed && sum_needed && !refm.killed && n != 1 {
                        sh.bad("make-stale", format!("make_stale was called on the dynamic sum while no observer needed it; in the first stabilise that needs it again it was recomputed {} times", n));
                    }
                    if poke_pending && sum_needed && sh.poked_this_round.get() && !refm.killed && n != 1 {
                        sh.bad("make-stale", format!("make_stale was called on the observed dynamic sum but it was recomputed {} times in that stabilise", n));
                    }
                }
                _ => {}
            }
            // reads after every action
            for (oi, o) in observers.iter().enumerate() {
                let Some((outi, obs, been)) = o else { continue };
                reads += 1;
                let got = obs.try_get_value();
                sh.ev(format!("read obs{} out{} -> {:?}", oi, outi, got));
                if !*been {
                    if got != Err(incremental::ObserverError::NeverStabilised) {
                        sh.bad("new-observer", format!("new observer on output {} returned {:?}", outi, got));
                    }
                    continue;
                }
                if stabilised {
                    match (refm.out(&cfg, *outi), &got) {
                        (Some(v), Ok(g)) if v == *g => {}
                        (None, Err(incremental::ObserverError::ObservingInvalid)) => {}
                        (exp, _) => {
                            let rule = match (exp, &got) {
                                (Some(_), Err(_)) => "spurious-invalid",
                                (None, Ok(_)) => "invalidate-ignored",
                                _ => "wrong-value",
                            };
                            sh.bad(rule, format!("output {} ({}) returned {:?}, the reference computation gives {:?}", outi, ["dynamic sum", "join", "expert bind", "map over sum", "map2(sum, join)", "poking child", "controller"][*outi], got, exp));
                        }
                    }
                }
            }
            // a write made by the observability callback took effect at the end of the stabilise
            if let Some((i, v)) = sh.hook_wrote.take() {
                refm.vars[i] = v;
            }
            let lines = crate::run::full_audit(&state, stabilised);
            audits += 1;
            if !lines.is_empty() {
                let at = sh.log.borrow().len();
                for l in lines {
                    // the expert node's own counters are C14's business as well
                    if l.starts_with("expert node") {
                        sh.viol.borrow_mut().push(Violation { property: "C14", rule: "bookkeeping", at, detail: l.clone() });
                    }
                    sh.viol.borrow_mut().push(Violation { property: "C11", rule: "audit", at, detail: l });
                }
            }
            // like the core engine: under a check, only a violation of the property being checked
            // ends the run (an audit line describes latent damage whose symptom may come later)
            let stop_on = knobs.stop_on.as_str();
            if sh.viol.borrow().iter().any(|v| stop_on.is_empty() || v.property == stop_on || (stop_on != "C11" && v.property != "C11")) {
                break;
            }
        }
        // teardown: everything must drop without panicking
        drop(observers);
        drop(outputs);
        drop(state);
    }));
    if let Err(p) = body {
        let (msg, _) = panic_message(&p);
        sh.ev(format!("PANIC {}", msg));
        let at = sh.log.borrow().len();
        sh.viol.borrow_mut().push(Violation { property: "C14", rule: "panic", at, detail: format!("panicked: {}", msg) });
        out.panics.push(msg);
    }
    incremental::verif::set_chooser(None);
    out.violations = sh.viol.borrow().clone();
    out.cov.rounds = rounds;
    out.cov.reads_checked = reads;
    out.cov.audits = audits;
    out.cov.invocations = sh.invocations.get() + sh.callbacks.get();
    out.actions = actions_done;
    out.events = sh.log.borrow().len() as u64;
    out.faults.insert("expert_remove_dependency_on_invalidated_child".into(), sh.removed_invalid_dep.get());
    out.faults.insert("expert_remove_one_of_duplicate_dependencies".into(), sh.removed_duplicate.get());
    out.faults.insert("expert_add_dependency".into(), sh.added_on_computed_child.get());
    out.faults.insert("expert_invalidate".into(), sh.killed.get() as u64);
    out.faults.insert("expert_write_from_observability_callback".into(), sh.hook_writes.get());
    out.probes = incremental::verif::take_probes().into_iter().map(|(k, v)| (k.to_string(), v)).collect();
    let mut h = Fnv::new();
    let mut shape = Fnv::new();
    for l in sh.log.borrow().iter() {
        h.str(l);
        if l.starts_with("sum recompute") || l.starts_with("add dep") || l.starts_with("remove dep") || l.starts_with("bind ran") || l.starts_with("sum observability") {
            shape.str(l.split("->").next().unwrap_or(l));
        }
    }
    out.trace_hash = h.finish();
    out.shape_hash = shape.finish();
    // non-trivial for C14: a dependency on an invalidated child was removed, or one of two
    // duplicates, or the sum was re-observed
    out.cov.bind_switches = sh.removed_invalid_dep.get();
    out.cov.reobserved = sh.removed_duplicate.get();
    if keep_trace {
        out.trace = Some(sh.log.borrow().iter().map(|l| crate::trace::Ev::Note(l.clone())).collect());
    }
    out
}

//! Seeded generation of core-engine plans (swarm style: every run draws its own mix).

use crate::plan::*;
use crate::rng::Rng;

#[derive(Clone, Debug)]
pub struct Profile {
    pub name: &'static str,
    pub actions: (usize, usize),
    pub w_build: u32,
    pub w_bind: u32,
    pub w_write: u32,
    pub w_observe: u32,
    pub w_clone: u32,
    pub w_dropobs: u32,
    pub w_disallow: u32,
    pub w_sub: u32,
    pub w_unsub: u32,
    pub w_stab: u32,
    pub w_dropnode: u32,
    pub w_dropvar: u32,
    pub w_cutoff: u32,
    pub w_memo: u32,
    pub w_onupdate: u32,
    pub w_isstable: u32,
    pub w_setmax: u32,
    /// allow cutoffs that suppress unequal values (off for C01)
    pub noneq_cutoffs: bool,
    /// percent of node functions that carry re-entrant effects
    pub fx_pct: u32,
    /// percent of handlers that carry effects
    pub hfx_pct: u32,
    /// same-observer re-entrancy from handlers (its own labelled fault kind)
    pub same_obs: bool,
    pub export_pct: u32,
    pub temp_pct: u32,
    pub sibling_bias: bool,
    pub tie_break_pct: u32,
    pub random_teardown_pct: u32,
    pub drop_state_pct: u32,
    pub big_pct: u32,
    /// percent of plans that contain the bind disconnect / reconnect skeleton
    pub skeleton_pct: u32,
    /// percent of plans that contain the map_ref disconnect / reconnect skeleton
    pub mapref_skeleton_pct: u32,
    /// percent of plans that contain the skeleton of a bind over a pre-existing right-hand side
    pub outer_rhs_skeleton_pct: u32,
}

impl Profile {
    pub fn base(name: &'static str) -> Profile {
        Profile {
            name,
            actions: (8, 60),
            w_build: 30,
            w_bind: 8,
            w_write: 22,
            w_observe: 10,
            w_clone: 2,
            w_dropobs: 5,
            w_disallow: 3,
            w_sub: 5,
            w_unsub: 2,
            w_stab: 18,
            w_dropnode: 3,
            w_dropvar: 1,
            w_cutoff: 3,
            w_memo: 0,
            w_onupdate: 1,
            w_isstable: 1,
            w_setmax: 1,
            noneq_cutoffs: true,
            fx_pct: 12,
            hfx_pct: 40,
            same_obs: false,
            export_pct: 25,
            temp_pct: 20,
            sibling_bias: false,
            tie_break_pct: 20,
            random_teardown_pct: 30,
            drop_state_pct: 0,
            big_pct: 0,
            skeleton_pct: 15,
            mapref_skeleton_pct: 4,
            outer_rhs_skeleton_pct: 4,
        }
    }
}

struct G<'a> {
    r: Rng,
    p: &'a Profile,
    ni: usize,
    np: usize,
    nq: usize,
    /// remaining steps of a map_ref chain being emitted (each on top of the previous node)
    pending_chain: usize,
    pending_idref: u32,
    chain_stage: u8,
    nvars: usize,
    nobs: usize,
    nsubs: usize,
    nmemo: usize,
    fault_free: bool,
}

const F1S: [F1; 8] = [F1::Id, F1::Half, F1::Mod3, F1::Abs, F1::Neg, F1::Inc, F1::Konst(2), F1::AddK(3)];
const F2S: [F2; 6] = [F2::Add, F2::Min, F2::Max, F2::Lin, F2::Fst, F2::Snd];

impl<'a> G<'a> {
    fn f1(&mut self) -> F1 {
        *self.r.pick(&F1S)
    }
    fn f2(&mut self) -> F2 {
        *self.r.pick(&F2S)
    }
    fn val(&mut self) -> i64 {
        self.r.range(-3, 8)
    }
    fn idx(&mut self) -> usize {
        self.r.below(64)
    }
    fn on(&mut self) -> Vec<u32> {
        match self.r.below(4) {
            0 => vec![0],
            1 => vec![1],
            2 => vec![0, 2],
            _ => vec![1, 2, 3],
        }
    }
    fn write_op(&mut self) -> WriteOp {
        match self.r.below(7) {
            0 | 1 => WriteOp::Set(self.val()),
            2 => WriteOp::SetB(self.val()),
            3 => WriteOp::Update(self.f1()),
            4 => WriteOp::Modify(self.f1()),
            5 => WriteOp::Replace(self.val()),
            _ => WriteOp::ReplaceWith(self.f1()),
        }
    }
    fn node_fx(&mut self) -> Vec<EffectSpec> {
        if self.fault_free || !self.r.chance(self.p.fx_pct, 100) {
            return vec![];
        }
        let n = 1 + self.r.below(2);
        (0..n)
            .map(|_| {
                let eff = match self.r.weighted(&[8, 4, 3, 3, 1, 1, 1, 1, 1, 1, 1]) {
                    0 => Effect::Write { var: self.idx(), op: self.write_op() },
                    1 => Effect::WriteArg { var: self.idx(), f: self.f1() },
                    2 => Effect::GetVar { var: self.idx() },
                    3 => Effect::ReadObs { obs: self.idx() },
                    4 => Effect::Observe { node: self.idx() },
                    5 => Effect::DropObs { obs: self.idx(), clone: self.idx() },
                    6 => Effect::Disallow { obs: self.idx() },
                    7 => Effect::DropVar { var: self.idx() },
                    8 => Effect::WriteThenDropVar { var: self.idx(), op: self.write_op() },
                    9 => Effect::IsStable,
                    _ => Effect::ObserveSub { node: self.idx() },
                };
                EffectSpec { on: self.on(), eff }
            })
            .collect()
    }
    fn handler(&mut self, depth: u32) -> HandlerSpec {
        if self.fault_free || !self.r.chance(self.p.hfx_pct, 100) {
            return HandlerSpec::default();
        }
        let n = 1 + self.r.below(2);
        let fx = (0..n)
            .map(|_| {
                let same = if self.p.same_obs { 2 } else { 0 };
                let eff = match self.r.weighted(&[8, 3, 4, 2, 2, 2, 2, 1, 1, 1, same, same, same]) {
                    0 => Effect::Write { var: self.idx(), op: self.write_op() },
                    1 => Effect::WriteArg { var: self.idx(), f: self.f1() },
                    2 => Effect::ReadObs { obs: self.idx() },
                    3 => Effect::GetVar { var: self.idx() },
                    4 if depth < 2 => Effect::Subscribe { obs: self.idx(), h: Box::new(self.handler(depth + 1)) },
                    4 => Effect::IsStable,
                    5 => Effect::Unsub { obs: self.idx(), sub: self.idx() },
                    6 => Effect::DisallowSelf,
                    7 => Effect::Disallow { obs: self.idx() },
                    8 => Effect::DropObs { obs: self.idx(), clone: self.idx() },
                    9 => Effect::Observe { node: self.idx() },
                    10 => Effect::UnsubSelf,
                    11 => Effect::UnsubSibling { k: self.idx() },
                    _ if depth < 2 => Effect::SubscribeSelf { h: Box::new(self.handler(depth + 1)) },
                    _ => Effect::StateUnsub { sub: self.idx() },
                };
                EffectSpec { on: self.on(), eff }
            })
            .collect();
        HandlerSpec { fx }
    }
    /// constructor variant: mostly the plain one
    fn via(&mut self, n: usize) -> u8 {
        if self.r.chance(1, 4) { self.r.below(n) as u8 } else { 0 }
    }
    fn body_expr(&mut self, depth: u32, bind_depth: u32) -> BodyExpr {
        let leaf = depth >= 3;
        let w_memo = if self.nmemo > 0 { 2 } else { 0 };
        let w_local = if self.p.w_memo > 0 { 2 } else { 0 };
        let k = if leaf { self.r.weighted(&[5, 2, 0, 0, 1, 0, 0, w_memo, w_local, 0, 0]) } else { self.r.weighted(&[4, 2, 5, 2, 1, 1, if bind_depth < 2 { 2 } else { 0 }, w_memo, w_local, 1, 1]) };
        match k {
            0 => BodyExpr::Outer(self.r.below(4)),
            1 => BodyExpr::Const(self.val()),
            2 => {
                let inner = Box::new(self.body_expr(depth + 1, bind_depth));
                let f = self.f2();
                match self.via(4) {
                    0 => BodyExpr::Map(inner, f),
                    v => BodyExpr::MapVia(inner, f, v - 1),
                }
            }
            3 => BodyExpr::Map2(Box::new(self.body_expr(depth + 1, bind_depth)), Box::new(self.body_expr(depth + 1, bind_depth)), self.f2()),
            4 => BodyExpr::NewVar { v: self.val(), top: self.r.chance(1, 3) },
            5 => {
                let n = self.r.below(3) + 1;
                BodyExpr::Fold((0..n).map(|_| self.body_expr(depth + 1, bind_depth)).collect(), self.f2())
            }
            6 => BodyExpr::Bind(Box::new(self.body_expr(depth + 1, bind_depth)), Box::new(self.body(bind_depth + 1))),
            7 => BodyExpr::Memo { m: self.r.below(4), k: self.val() },
            8 => BodyExpr::LocalMemo { k: self.val() },
            9 => BodyExpr::Ref(Box::new(self.body_expr(depth + 1, bind_depth)), self.r.below(3) as u8),
            _ => BodyExpr::WithOld(Box::new(self.body_expr(depth + 1, bind_depth)), self.f1()),
        }
    }
    fn body(&mut self, bind_depth: u32) -> BodySpec {
        let nalts = 1 + self.r.below(3);
        let alts = (0..nalts).map(|_| self.body_expr(if bind_depth > 0 { 1 } else { 0 }, bind_depth)).collect();
        let nout = 1 + self.r.below(3);
        let outers = (0..nout)
            .map(|_| {
                let i = self.idx();
                if self.p.export_pct > 0 && self.r.chance(1, 10) {
                    return OuterSel::Invalid(i);
                }
                if self.p.sibling_bias {
                    match self.r.below(4) {
                        0 => OuterSel::Any(i),
                        1 => OuterSel::LhsAncestor(i),
                        _ => OuterSel::Sibling(i),
                    }
                } else {
                    match self.r.below(4) {
                        0 | 1 => OuterSel::Any(i),
                        2 => OuterSel::LhsAncestor(i),
                        _ => OuterSel::Sibling(i),
                    }
                }
            })
            .collect();
        let fx = if bind_depth == 0 { self.node_fx() } else { vec![] };
        let export = self.r.chance(if bind_depth == 0 { self.p.export_pct } else { self.p.export_pct / 2 }, 100);
        let side = if export && bind_depth < 2 && self.r.chance(1, 4) {
            let e = if self.r.chance(1, 2) { BodyExpr::Bind(Box::new(self.body_expr(2, bind_depth)), Box::new(self.body(bind_depth + 1))) } else { self.body_expr(1, bind_depth) };
            Some(Box::new(e))
        } else {
            None
        };
        let via = if self.r.chance(1, 5) { 1 } else { 0 };
        BodySpec { alts, outers, export, temp: self.r.chance(self.p.temp_pct, 100), side, via, fx }
    }
    fn cutoff(&mut self) -> CutoffSpec {
        if self.p.noneq_cutoffs {
            match self.r.below(8) {
                0 => CutoffSpec::Default,
                1 => CutoffSpec::Never,
                2 => CutoffSpec::Always,
                3 => CutoffSpec::Fn(1),
                4 => CutoffSpec::Fn(2),
                5 => CutoffSpec::Boxed(1),
                6 => CutoffSpec::Boxed(2),
                _ => CutoffSpec::Boxed(3),
            }
        } else {
            match self.r.below(4) {
                0 => CutoffSpec::Default,
                1 => CutoffSpec::Never,
                2 => CutoffSpec::Fn(1),
                _ => CutoffSpec::Boxed(1),
            }
        }
    }
    fn build(&mut self) -> Action {
        if self.pending_idref > 0 {
            self.pending_idref -= 1;
            self.ni += 1;
            return if self.pending_idref == 1 {
                Action::NewMapRef { src: usize::MAX, proj: 2 }
            } else {
                Action::NewMap { src: usize::MAX, f: self.f1(), fx: vec![], via: 0 }
            };
        }
        // continue a chain zip -> map_ref -> map_ref -> map, each over the node just created
        if self.pending_chain > 0 {
            self.pending_chain -= 1;
            return match self.pending_chain {
                2 | 1 if self.nq > 0 && self.chain_stage == 0 => {
                    self.chain_stage = 1;
                    self.np += 1;
                    Action::NewMapRefQ { src: usize::MAX }
                }
                _ if self.chain_stage == 1 => {
                    self.chain_stage = 2;
                    self.ni += 1;
                    // half of the chains get a third view on top (the identity view)
                    if self.r.chance(1, 2) {
                        self.pending_chain += 1;
                        self.chain_stage = 3;
                    }
                    Action::NewMapRef { src: usize::MAX, proj: self.r.below(2) as u8 }
                }
                _ if self.chain_stage == 3 => {
                    self.chain_stage = 2;
                    self.ni += 1;
                    Action::NewMapRef { src: usize::MAX, proj: 2 }
                }
                _ => {
                    self.chain_stage = 0;
                    self.pending_chain = 0;
                    self.ni += 1;
                    Action::NewMap { src: usize::MAX, f: self.f1(), fx: vec![], via: 0 }
                }
            };
        }
        // a node constructor over whatever exists
        if self.ni == 0 {
            self.ni += 1;
            self.nvars += 1;
            return Action::NewVar { init: self.val() };
        }
        let w_p = if self.np > 0 { 3 } else { 0 };
        let w_q = if self.nq > 0 { 3 } else { 0 };
        let k = self.r.weighted(&[4, 1, 1, 12, w_p, 2, 8, 4, 2, w_p, 2, 2, w_p / 2, w_q]);
        match k {
            0 => {
                self.ni += 1;
                self.nvars += 1;
                Action::NewVar { init: self.val() }
            }
            1 => {
                self.np += 1;
                self.nvars += 1;
                Action::NewVarP { a: self.val(), b: self.val() }
            }
            2 => {
                self.ni += 1;
                Action::NewConst { v: self.val() }
            }
            3 => {
                self.ni += 1;
                Action::NewMap { src: self.idx(), f: self.f1(), fx: self.node_fx(), via: self.via(4) }
            }
            4 => {
                self.ni += 1;
                Action::NewMapP { src: self.idx(), f: self.f2() }
            }
            5 => {
                self.np += 1;
                Action::NewMapIP { src: self.idx() }
            }
            6 => {
                self.ni += 1;
                let n = 2 + self.r.weighted(&[8, 3, 2, 1, 1]);
                let dup = self.r.chance(1, 5);
                let first = self.idx();
                let srcs = (0..n).map(|i| if dup && i > 0 { first } else { self.idx() }).collect();
                Action::NewMapN { srcs, f: self.f2(), fx: self.node_fx() }
            }
            7 => {
                self.ni += 1;
                let n = self.r.weighted(&[1, 2, 4, 4, 2, 1]);
                let dup = self.r.chance(1, 4);
                let first = self.idx();
                let srcs = (0..n).map(|i| if dup && i % 2 == 1 { first } else { self.idx() }).collect();
                Action::NewFold { srcs, init: self.val(), f: self.f2() }
            }
            8 => {
                self.np += 1;
                Action::NewZip { a: self.idx(), b: self.idx() }
            }
            9 => {
                self.ni += 1;
                // a projection of a pair node, or (proj 2) the identity view of a scalar node
                let proj = if self.r.chance(1, 3) { 2 } else { self.r.below(2) as u8 };
                Action::NewMapRef { src: self.idx(), proj }
            }
            10 => {
                self.ni += 1;
                // sometimes continued by a view of it and a consumer of the view
                if self.r.chance(1, 3) {
                    self.pending_idref = 2;
                }
                Action::NewMapWithOld { src: self.idx(), f: self.f1() }
            }
            12 => {
                self.nq += 1;
                self.pending_chain = 3;
                self.chain_stage = 0;
                Action::NewZipQ { a: self.idx(), b: self.idx() }
            }
            13 => {
                self.np += 1;
                Action::NewMapRefQ { src: self.idx() }
            }
            _ => {
                self.ni += 1;
                Action::NewDependOn { a: self.idx(), b: self.idx(), pool_b: if self.np > 0 && self.r.chance(1, 3) { Pool::P } else { Pool::I } }
            }
        }
    }
    fn pool(&mut self) -> Pool {
        if self.nq > 0 && self.r.chance(1, 8) {
            Pool::Q
        } else if self.np > 0 && self.r.chance(1, 4) {
            Pool::P
        } else if self.r.chance(1, 4) {
            Pool::Any
        } else {
            Pool::I
        }
    }
}

/// A bind whose closure returns the same outer node on every run and, on the side, memoises a
/// constructor and hands out one of its nodes; the node is observed, then the bind re-runs.
fn skeleton_local_memo(g: &mut G, actions: &mut Vec<Action>) {
    const LAST: usize = usize::MAX;
    const LAST_BIND: usize = usize::MAX - 1;
    const LAST_EXPORTED: usize = usize::MAX - 2;
    actions.push(Action::NewVar { init: 0 });
    let k = g.val();
    let body = BodySpec {
        alts: vec![BodyExpr::Outer(0)],
        outers: vec![OuterSel::Any(g.idx())],
        export: true,
        temp: false,
        side: Some(Box::new(BodyExpr::LocalMemo { k })),
        via: 0,
        fx: vec![],
    };
    actions.push(Action::NewBind { lhs: LAST, body });
    actions.push(Action::Observe { node: LAST_BIND, pool: Pool::I });
    actions.push(Action::Stabilise);
    actions.push(Action::Observe { node: LAST_EXPORTED, pool: Pool::I });
    actions.push(Action::Stabilise);
    actions.push(Action::Write { var: LAST, op: WriteOp::Update(F1::Inc) });
    actions.push(Action::Stabilise);
    if g.r.chance(1, 2) {
        actions.push(Action::Write { var: g.idx(), op: g.write_op() });
        actions.push(Action::Stabilise);
    }
    g.ni += 2;
    g.nvars += 1;
    g.nobs += 2;
}

/// A bind whose right-hand side is a node that exists outside it, in two variants.
/// (a) The bind and its dependant are disconnected while the outer node stays observed; the
/// outer node's value moves away and back; the dependant is re-observed: nothing changed for it.
/// (b) The bind switches from the outer node (which nothing else needs) to a node that is
/// already invalid; then everything is unobserved and the outer node's input is written: the
/// outer node is no longer anybody's business.
fn skeleton_outer_rhs(g: &mut G, actions: &mut Vec<Action>) {
    const LAST: usize = usize::MAX;
    const LAST_BIND: usize = usize::MAX - 1;
    let variant_b = g.r.chance(1, 2);
    if variant_b {
        // an invalid node the driver still holds: the exported node of a bind that re-ran
        actions.push(Action::NewVar { init: 0 });
        let f = g.f2();
        let body = BodySpec { alts: vec![BodyExpr::Map(Box::new(BodyExpr::Const(1)), f)], outers: vec![], export: true, temp: false, side: None, via: 0, fx: vec![] };
        actions.push(Action::NewBind { lhs: LAST, body });
        actions.push(Action::Observe { node: LAST_BIND, pool: Pool::I });
        actions.push(Action::Stabilise);
        actions.push(Action::Write { var: LAST, op: WriteOp::Update(F1::Inc) });
        actions.push(Action::Stabilise);
        g.ni += 3;
        g.nvars += 1;
        g.nobs += 1;
    }
    let init = g.val();
    actions.push(Action::NewVar { init });
    let f = g.f1();
    actions.push(Action::NewMap { src: LAST, f, fx: vec![], via: 0 });
    if !variant_b {
        actions.push(Action::Observe { node: LAST, pool: Pool::I });
        g.nobs += 1;
    }
    actions.push(Action::NewVar { init: 0 });
    let body = BodySpec {
        alts: vec![BodyExpr::Outer(0), BodyExpr::Outer(1)],
        outers: vec![OuterSel::Recent(1), if variant_b { OuterSel::Invalid(g.idx()) } else { OuterSel::Recent(1) }],
        export: false,
        temp: false,
        side: None,
        via: 0,
        fx: vec![],
    };
    actions.push(Action::NewBind { lhs: LAST, body });
    g.ni += 4;
    g.nvars += 2;
    if variant_b {
        actions.push(Action::Observe { node: LAST_BIND, pool: Pool::I });
        g.nobs += 1;
        actions.push(Action::Stabilise);
        actions.push(Action::Write { var: LAST, op: WriteOp::Set(1) });
        actions.push(Action::Stabilise);
        actions.push(Action::DropObs { obs: LAST, clone: 0 });
        if g.r.chance(1, 2) {
            actions.push(Action::Stabilise);
        }
        actions.push(Action::Write { var: LAST - 1, op: WriteOp::Update(F1::Inc) });
        actions.push(Action::Stabilise);
        actions.push(Action::Write { var: LAST - 1, op: WriteOp::Update(F1::Inc) });
        actions.push(Action::Stabilise);
    } else {
        let fd = g.f1();
        actions.push(Action::NewMap { src: LAST_BIND, f: fd, fx: vec![], via: 0 });
        g.ni += 1;
        actions.push(Action::Observe { node: LAST, pool: Pool::I });
        g.nobs += 1;
        actions.push(Action::Stabilise);
        actions.push(Action::DropObs { obs: LAST, clone: 0 });
        actions.push(Action::Stabilise);
        let other = g.val();
        actions.push(Action::Write { var: LAST - 1, op: WriteOp::Set(other) });
        actions.push(Action::Stabilise);
        actions.push(Action::Write { var: LAST - 1, op: WriteOp::Set(init) });
        if g.r.chance(1, 2) {
            actions.push(Action::Stabilise);
        }
        actions.push(Action::Observe { node: LAST, pool: Pool::I });
        g.nobs += 1;
        actions.push(Action::Stabilise);
    }
}

/// A projection (`map_ref`) of a pair variable with a consumer: the consumer is disconnected
/// while the variable stays observed, the variable is written, the consumer is re-observed and
/// the variable written again before the next stabilise.
fn skeleton_mapref(g: &mut G, actions: &mut Vec<Action>) {
    const LAST: usize = usize::MAX;
    let pair_write = |g: &mut G| if g.r.chance(1, 2) { WriteOp::Set(g.val()) } else { WriteOp::SetB(g.val()) };
    actions.push(Action::NewVarP { a: g.val(), b: g.val() });
    g.np += 1;
    g.nvars += 1;
    actions.push(Action::Observe { node: LAST, pool: Pool::P });
    actions.push(Action::NewMapRef { src: LAST, proj: g.r.below(2) as u8 });
    // up to two more views stacked on the projection
    let extra = g.r.below(3);
    for _ in 0..extra {
        actions.push(Action::NewMapRef { src: LAST, proj: 2 });
    }
    let f = g.f1();
    actions.push(Action::NewMap { src: LAST, f, fx: vec![], via: 0 });
    g.ni += 2 + extra;
    actions.push(Action::Observe { node: LAST, pool: Pool::I });
    g.nobs += 2;
    actions.push(Action::Stabilise);
    actions.push(Action::DropObs { obs: LAST, clone: 0 });
    actions.push(Action::Stabilise);
    for _ in 0..1 + g.r.below(2) {
        let op = pair_write(g);
        actions.push(Action::Write { var: LAST, op });
    }
    if g.r.chance(3, 4) {
        actions.push(Action::Stabilise);
    }
    actions.push(Action::Observe { node: LAST, pool: Pool::I });
    g.nobs += 1;
    for _ in 0..g.r.below(3) {
        let op = pair_write(g);
        actions.push(Action::Write { var: LAST, op });
    }
    actions.push(Action::Stabilise);
}

/// A bind whose closure hands out a node; the node is observed on its own, the bind is
/// disconnected (its own observer dropped), things change, and the bind is reconnected.
fn skeleton_reconnect(g: &mut G, actions: &mut Vec<Action>) {
    const LAST: usize = usize::MAX;
    const LAST_BIND: usize = usize::MAX - 1;
    const LAST_EXPORTED: usize = usize::MAX - 2;
    let lhs = if g.r.chance(1, 2) {
        // an input that can grow taller by one level while keeping its value
        let body = BodySpec {
            alts: vec![BodyExpr::Outer(0), BodyExpr::Map(Box::new(BodyExpr::Outer(0)), F2::Snd)],
            outers: vec![OuterSel::Any(g.idx())],
            export: false,
            temp: false,
            via: 0,
            side: None,
            fx: vec![],
        };
        actions.push(Action::NewBind { lhs: g.idx(), body });
        actions.push(Action::Observe { node: LAST_BIND, pool: Pool::I });
        g.ni += 1;
        g.nobs += 1;
        LAST
    } else {
        g.idx()
    };
    let inner = match g.r.below(3) {
        0 => BodyExpr::Map(Box::new(BodyExpr::Outer(0)), g.f2()),
        1 => BodyExpr::Map(Box::new(BodyExpr::Map(Box::new(BodyExpr::Outer(0)), g.f2())), g.f2()),
        _ => BodyExpr::Map(Box::new(BodyExpr::NewVar { v: g.val(), top: false }), g.f2()),
    };
    let body = BodySpec {
        alts: if g.r.chance(1, 2) { vec![inner.clone()] } else { vec![inner.clone(), BodyExpr::Map(Box::new(inner), g.f2())] },
        outers: vec![if g.r.chance(1, 2) { OuterSel::Any(g.idx()) } else { OuterSel::Sibling(g.idx()) }],
        export: true,
        temp: g.r.chance(1, 3),
        via: 0,
        side: None,
        fx: vec![],
    };
    actions.push(Action::NewBind { lhs, body });
    actions.push(Action::Observe { node: LAST_BIND, pool: Pool::I });
    actions.push(Action::Stabilise);
    actions.push(Action::Observe { node: LAST_EXPORTED, pool: Pool::I });
    g.ni += 2;
    g.nobs += 2;
    if g.r.chance(1, 2) {
        actions.push(Action::Subscribe { obs: LAST, h: HandlerSpec::default() });
        g.nsubs += 1;
    }
    actions.push(Action::Stabilise);
    actions.push(Action::DropObs { obs: LAST_BIND, clone: 0 });
    actions.push(Action::Stabilise);
    for _ in 0..1 + g.r.below(3) {
        actions.push(Action::Write { var: g.idx(), op: g.write_op() });
    }
    if g.r.chance(1, 2) {
        actions.push(Action::Stabilise);
    }
    actions.push(Action::Observe { node: LAST_BIND, pool: Pool::I });
    g.nobs += 1;
    for _ in 0..g.r.below(3) {
        actions.push(Action::Write { var: g.idx(), op: g.write_op() });
    }
    actions.push(Action::Stabilise);
}

pub fn gen_plan(seed: u64, p: &Profile) -> Plan {
    let mut plan_rng = Rng::stream(seed, 1);
    let mut sched = Rng::stream(seed, 3);
    // swarm: zero out a random subset of action kinds, and make a share of runs fault-free
    let mut p = p.clone();
    let fault_free = plan_rng.chance(1, 6);
    {
        let knobs: [&mut u32; 9] = [&mut p.w_bind, &mut p.w_dropobs, &mut p.w_disallow, &mut p.w_sub, &mut p.w_unsub, &mut p.w_dropnode, &mut p.w_dropvar, &mut p.w_cutoff, &mut p.w_memo];
        for k in knobs {
            if plan_rng.chance(1, 5) {
                *k = 0;
            } else if plan_rng.chance(1, 5) {
                *k *= 3;
            }
        }
    }
    let big = plan_rng.chance(p.big_pct, 100);
    let n_actions = if big { plan_rng.range(60, 150) as usize } else { plan_rng.range(p.actions.0 as i64, p.actions.1 as i64) as usize };
    let max_nodes = if big { 48 } else { 24 };
    let mut g = G { r: plan_rng, p: &p, ni: 0, np: 0, nq: 0, pending_chain: 0, chain_stage: 0, pending_idref: 0, nvars: 0, nobs: 0, nsubs: 0, nmemo: 0, fault_free };
    let mut actions = vec![];
    // setup
    let nv = 1 + g.r.below(3);
    for _ in 0..nv {
        actions.push(Action::NewVar { init: g.val() });
        g.ni += 1;
        g.nvars += 1;
    }
    let nb = 1 + g.r.below(5);
    for _ in 0..nb {
        let a = g.build();
        actions.push(a);
    }
    let skeleton_at = if !fault_free && g.r.chance(p.skeleton_pct, 100) { Some(actions.len() + g.r.below(n_actions.max(actions.len() + 1) - actions.len())) } else { None };
    let mut skeleton_done = false;
    let mapref_at = if g.r.chance(p.mapref_skeleton_pct, 100) { Some(actions.len() + g.r.below(n_actions.max(actions.len() + 1) - actions.len())) } else { None };
    let mut mapref_done = false;
    let outer_rhs_at = if g.r.chance(p.outer_rhs_skeleton_pct, 100) { Some(actions.len() + g.r.below(n_actions.max(actions.len() + 1) - actions.len())) } else { None };
    let mut outer_rhs_done = false;
    let local_memo_at = if p.w_memo > 0 && g.r.chance(8, 100) { Some(actions.len() + g.r.below(n_actions.max(actions.len() + 1) - actions.len())) } else { None };
    let mut local_memo_done = false;
    while actions.len() < n_actions {
        if let Some(at) = local_memo_at {
            if !local_memo_done && actions.len() >= at {
                local_memo_done = true;
                skeleton_local_memo(&mut g, &mut actions);
                continue;
            }
        }
        if let Some(at) = outer_rhs_at {
            if !outer_rhs_done && actions.len() >= at {
                outer_rhs_done = true;
                skeleton_outer_rhs(&mut g, &mut actions);
                continue;
            }
        }
        if let Some(at) = mapref_at {
            if !mapref_done && actions.len() >= at {
                mapref_done = true;
                skeleton_mapref(&mut g, &mut actions);
                continue;
            }
        }
        if let Some(at) = skeleton_at {
            if !skeleton_done && actions.len() >= at {
                skeleton_done = true;
                skeleton_reconnect(&mut g, &mut actions);
                continue;
            }
        }
        let can_build = g.ni + g.np + g.nq < max_nodes;
        let w = [
            if can_build { p.w_build } else { 0 },
            if can_build { p.w_bind } else { 0 },
            p.w_write,
            p.w_observe,
            if g.nobs > 0 { p.w_clone } else { 0 },
            if g.nobs > 0 { p.w_dropobs } else { 0 },
            if g.nobs > 0 { p.w_disallow } else { 0 },
            if g.nobs > 0 { p.w_sub } else { 0 },
            if g.nsubs > 0 { p.w_unsub } else { 0 },
            p.w_stab,
            p.w_dropnode,
            p.w_dropvar,
            p.w_cutoff,
            p.w_memo,
            p.w_onupdate,
            p.w_isstable,
            p.w_setmax,
        ];
        let a = match g.r.weighted(&w) {
            0 => g.build(),
            1 => {
                g.ni += 1;
                Action::NewBind { lhs: g.idx(), body: g.body(0) }
            }
            2 => {
                let burst = 1 + g.r.below(3);
                for _ in 1..burst {
                    actions.push(Action::Write { var: g.idx(), op: g.write_op() });
                }
                Action::Write { var: g.idx(), op: g.write_op() }
            }
            3 => {
                g.nobs += 1;
                // bias towards recently created nodes (the end of the pool)
                Action::Observe { node: g.idx(), pool: g.pool() }
            }
            4 => Action::CloneObs { obs: g.idx() },
            5 => Action::DropObs { obs: g.idx(), clone: g.idx() },
            6 => Action::Disallow { obs: g.idx() },
            7 => {
                g.nsubs += 1;
                Action::Subscribe { obs: g.idx(), h: g.handler(0) }
            }
            8 => {
                if g.r.chance(1, 3) {
                    Action::StateUnsub { sub: g.idx() }
                } else {
                    Action::Unsub { obs: g.idx(), sub: g.idx() }
                }
            }
            9 => {
                if g.r.chance(1, 8) {
                    Action::StabiliseUntilStable { max: 6 }
                } else {
                    Action::Stabilise
                }
            }
            10 => Action::DropNode { node: g.idx(), pool: g.pool() },
            11 => Action::DropVar { var: g.idx() },
            12 => Action::SetCutoff { node: g.idx(), pool: g.pool(), c: g.cutoff() },
            13 => {
                if g.nmemo == 0 || g.r.chance(1, 4) {
                    g.nmemo += 1;
                    Action::Memoize { src: g.idx() }
                } else if g.r.chance(1, 10) {
                    Action::DropMemo { m: g.idx() }
                } else {
                    g.ni += 1;
                    let (m, key) = (g.idx(), g.r.range(0, 2));
                    match g.r.below(4) {
                        0 => {
                            // hit: the same key twice while the first node is still held
                            actions.push(Action::MemoCall { m, key });
                        }
                        1 => {
                            // re-creation: drop the node just handed out, stabilise, ask again
                            actions.push(Action::MemoCall { m, key });
                            actions.push(Action::DropNode { node: usize::MAX, pool: Pool::I });
                            actions.push(Action::Stabilise);
                        }
                        _ => {}
                    }
                    Action::MemoCall { m, key }
                }
            }
            14 => Action::OnUpdate { node: g.idx(), pool: g.pool() },
            15 => Action::IsStable,
            // a legal reconfiguration of the height limit, at any point between two actions (also
            // between a write and its stabilise)
            _ => Action::SetMaxHeight { n: g.r.below(64) },
        };
        actions.push(a);
    }
    actions.push(Action::Stabilise);
    if g.r.chance(1, 3) {
        actions.push(Action::StabiliseUntilStable { max: 8 });
    }
    if g.r.chance(p.drop_state_pct, 100) {
        actions.push(Action::DropState);
    }
    if g.r.chance(p.random_teardown_pct, 100) {
        actions.push(Action::Teardown { perm: g.r.next(), stabilise_between: g.r.chance(1, 2) });
    }
    let knobs = Knobs {
        hash_seed: sched.next(),
        tie_break: if sched.chance(p.tie_break_pct, 100) { Some(sched.next()) } else { None },
        max_height: None,
        crash_at: None,
        dense_reads: true,
        audit: true,
        stop_on: String::new(),
    };
    Plan { engine: "core".into(), actions, knobs, extra: serde_json::Value::Null }
}

//! Limits engine (C19): the height limit is exact (twin-run oracle), and misuse (cycles through
//! binds, cross-state nodes, nested stabilise) panics with a diagnostic instead of hanging.

use std::cell::{Cell, RefCell};
use std::panic::{catch_unwind, AssertUnwindSafe};
use std::rc::Rc;

use incremental::{Incr, IncrState, Observer, Var};
use serde::{Deserialize, Serialize};

use crate::plan::*;
use crate::rng::{Fnv, Rng};
use crate::run::{panic_message, RunOutput};
use crate::trace::Violation;
use crate::xplan::XAct;

#[derive(Serialize, Deserialize, Clone, Debug)]
pub struct LimitsCfg {
    /// the limit under test
    pub n: usize,
    /// None: created with new_with_height(n). Some((n0, t0)): created with n0, reconfigured to n
    /// before action t0
    pub reconfigure: Option<(usize, usize)>,
    /// a second reconfiguration, to `n2` before action `t2` (legal or not, whatever the history makes it)
    #[serde(default)]
    pub reconfigure2: Option<(usize, usize)>,
    /// 0 = limit scenario, 1 = cycle through one bind, 2 = cycle through two binds,
    /// 3 = cross-state node, 4 = nested stabilise in node function, 5 = nested stabilise in handler
    pub misuse: u8,
    /// inject the misuse before this action
    pub misuse_at: usize,
}

pub fn gen_plan(seed: u64) -> Plan {
    let mut r = Rng::stream(seed, 1);
    let n = r.range(3, 14) as usize;
    let misuse = if r.chance(2, 5) { 1 + r.below(8) as u8 } else { 0 };
    let n_actions = r.range(6, 26) as usize;
    let mut acts = vec![];
    // graphs whose heights concentrate around n
    while acts.len() < n_actions {
        let a = match r.weighted(&[10, 5, 6, 6, 2, 9]) {
            0 => {
                let len = if r.chance(1, 3) { (n as i64 + r.range(-3, 2)).max(1) as usize } else { 1 + r.below(4) };
                XAct::Chain { on: r.below(8), len }
            }
            1 => {
                let span = if r.chance(1, 3) { n.max(2) } else { 3 };
                XAct::BindChain { on: r.below(8), depth: 1 + r.below(span) }
            }
            2 => XAct::Write { v: r.range(-3, 8) },
            3 => XAct::Observe { out: r.below(8) },
            4 => XAct::DropObs { obs: r.below(8) },
            _ => XAct::Stabilise,
        };
        acts.push(a);
    }
    acts.push(XAct::Observe { out: r.below(8) });
    acts.push(XAct::Stabilise);
    acts.push(XAct::Write { v: r.range(-3, 8) });
    acts.push(XAct::Stabilise);
    let reconfigure = if misuse == 0 && r.chance(1, 2) {
        // growing (n0 < n) or shrinking (n0 > n; only legal when nothing taller has been seen)
        let n0 = if r.chance(1, 2) { (n as i64 - r.range(1, 3)).max(1) as usize } else { n + 1 + r.below(6) };
        Some((n0, r.below(acts.len())))
    } else {
        None
    };
    let misuse_at = r.below(acts.len());
    let reconfigure2 = match reconfigure {
        Some((_, t0)) if t0 + 1 < acts.len() && r.chance(1, 2) => Some(((n as i64 + r.range(-4, 2)).max(1) as usize, t0 + 1 + r.below(acts.len() - t0 - 1))),
        _ => None,
    };
    let knobs = Knobs { hash_seed: r.next(), tie_break: None, max_height: None, crash_at: None, dense_reads: true, audit: true, stop_on: String::new() };
    Plan { engine: "limits".into(), actions: acts.into_iter().map(Action::X).collect(), knobs, extra: serde_json::to_value(LimitsCfg { n, reconfigure, reconfigure2, misuse, misuse_at }).unwrap() }
}

#[derive(Clone, Debug, PartialEq)]
enum Step {
    Ok { max_seen: i32, reads: Vec<Result<i64, String>> },
    Panicked(String),
    Skipped,
}

struct Sim {
    state: IncrState,
    var: Var<i64>,
    var_val: i64,
    ends: Vec<Incr<i64>>,
    observers: Vec<Option<Observer<i64>>>,
    calls: Rc<Cell<u64>>,
}

const CALL_BUDGET: u64 = 200_000;

/// Records, when a nested stabilise call returns or unwinds, how many instrumented node
/// functions ran during it.
struct NestedGuard {
    calls: Rc<Cell<u64>>,
    before: u64,
    out: Rc<Cell<u64>>,
}
impl Drop for NestedGuard {
    fn drop(&mut self) {
        self.out.set(self.out.get() + (self.calls.get() - self.before));
    }
}

fn tick(calls: &Rc<Cell<u64>>) {
    calls.set(calls.get() + 1);
    if calls.get() > CALL_BUDGET {
        panic!("simulator watchdog: callback budget exhausted (livelock?)");
    }
}

impl Sim {
    fn new(limit: usize) -> Sim {
        let state = IncrState::new_with_height(limit);
        let var = state.var(1i64);
        let ends = vec![var.watch()];
        Sim { state, var, var_val: 1, ends, observers: vec![], calls: Rc::new(Cell::new(0)) }
    }
    fn apply(&mut self, a: &XAct) -> Step {
        let r = catch_unwind(AssertUnwindSafe(|| match a {
            XAct::Chain { on, len } => {
                let mut cur = self.ends[*on % self.ends.len()].clone();
                for _ in 0..*len {
                    let c = self.calls.clone();
                    cur = cur.map(move |x| {
                        tick(&c);
                        norm(*x + 1)
                    });
                }
                self.ends.push(cur);
                true
            }
            XAct::BindChain { on, depth } => {
                let lhs = self.ends[*on % self.ends.len()].clone();
                let other = self.ends[(*on + 1) % self.ends.len()].clone();
                let depth = *depth;
                let c = self.calls.clone();
                let b = lhs.bind(move |l: &i64| {
                    tick(&c);
                    let mut cur = other.clone();
                    let l = *l;
                    for _ in 0..depth {
                        let c2 = c.clone();
                        cur = cur.map(move |x| {
                            tick(&c2);
                            norm(*x + l)
                        });
                    }
                    cur
                });
                self.ends.push(b);
                true
            }
            XAct::Write { v } => {
                self.var_val = norm(*v);
                self.var.set(self.var_val);
                true
            }
            XAct::Observe { out } => {
                let o = self.ends[*out % self.ends.len()].observe();
                self.observers.push(Some(o));
                true
            }
            XAct::DropObs { obs } => {
                let live: Vec<usize> = self.observers.iter().enumerate().filter(|(_, o)| o.is_some()).map(|(i, _)| i).collect();
                if !live.is_empty() {
                    let i = live[*obs % live.len()];
                    self.observers[i] = None;
                }
                true
            }
            XAct::Stabilise => {
                self.state.stabilise();
                true
            }
            _ => false,
        }));
        match r {
            Ok(true) => {
                let snap = self.state.verif_snapshot();
                let reads = self.observers.iter().flatten().map(|o| o.try_get_value().map_err(|e| format!("{:?}", e))).collect();
                Step::Ok { max_seen: snap.max_height_seen, reads }
            }
            Ok(false) => Step::Skipped,
            Err(p) => {
                let (msg, _) = panic_message(&p);
                Step::Panicked(msg)
            }
        }
    }
}

pub fn run_on_this_thread(plan: &Plan, keep_trace: bool) -> RunOutput {
    let cfg: LimitsCfg = serde_json::from_value(plan.extra.clone()).expect("limits cfg");
    incremental::verif::reset_ids();
    incremental::verif::set_hash_seed(plan.knobs.hash_seed);
    incremental::verif::set_chooser(None);
    incremental::verif::set_listener(None);
    let _ = incremental::verif::take_probes();
    let mut out = RunOutput::default();
    let mut log: Vec<String> = vec![];
    let mut viol: Vec<Violation> = vec![];
    let acts: Vec<XAct> = plan.actions.iter().filter_map(|a| if let Action::X(x) = a { Some(x.clone()) } else { None }).collect();
    macro_rules! bad {
        ($rule:expr, $($arg:tt)*) => { viol.push(Violation { property: "C19", rule: $rule, at: log.len(), detail: format!($($arg)*) }) };
    }
    let mut rounds = 0u64;
    if cfg.misuse == 0 {
        // ---- twin run with a very large limit: what heights does the engine itself assign?
        let mut twin = Sim::new(4000);
        let mut twin_steps = vec![];
        for a in &acts {
            twin_steps.push(twin.apply(a));
        }
        drop(twin);
        incremental::verif::reset_ids();
        // ---- the run under test
        let (n0, t0) = match cfg.reconfigure {
            Some((n0, t0)) => (n0, Some(t0)),
            None => (cfg.n, None),
        };
        let mut sim = Sim::new(n0);
        let mut limit = n0 as i32;
        let mut seen_so_far = 0i32;
        let mut over = false;
        for (t, a) in acts.iter().enumerate() {
            let target = if t0 == Some(t) {
                Some(cfg.n)
            } else {
                match cfg.reconfigure2 {
                    Some((n2, t2)) if t2 == t && t0.map_or(false, |t0| t0 < t) => Some(n2),
                    _ => None,
                }
            };
            if let Some(target) = target {
                // legal whenever n is at least the greatest height already in use
                if target as i32 >= seen_so_far {
                    let st = sim.state.clone();
                    let r = catch_unwind(AssertUnwindSafe(|| st.set_max_height_allowed(target)));
                    log.push(format!("set_max_height_allowed({}) with max height seen {} -> {}", target, seen_so_far, if r.is_ok() { "ok" } else { "panic" }));
                    match r {
                        Ok(()) => limit = target as i32,
                        Err(p) => {
                            let (msg, _) = panic_message(&p);
                            bad!("legal-reconfigure-panicked", "set_max_height_allowed({}) panicked although the greatest height in use is {}: {}", target, seen_so_far, msg);
                            break;
                        }
                    }
                    *out.faults.entry("reconfigure".into()).or_insert(0) += 1;
                } else {
                    // fault: a shrink below the greatest height in use. Whether it is refused by a
                    // panic is not judged; once refused it must have changed nothing, so the
                    // history continues under the old limit
                    let st = sim.state.clone();
                    let r = catch_unwind(AssertUnwindSafe(|| st.set_max_height_allowed(target)));
                    log.push(format!("set_max_height_allowed({}) with max height seen {} -> {}", target, seen_so_far, if r.is_ok() { "ok" } else { "refused" }));
                    if r.is_ok() {
                        // accepted although something taller is in use: from now on that is the
                        // limit the engine has promised to enforce
                        limit = target as i32;
                        *out.faults.entry("reconfigure_below_use_accepted".into()).or_insert(0) += 1;
                    } else {
                        *out.faults.entry("reconfigure_refused".into()).or_insert(0) += 1;
                    }
                }
            }
            let step = sim.apply(a);
            log.push(format!("{:?} -> {:?} (twin {:?})", a, step, twin_steps[t]));
            // the engine's own books (C11), among them "every needed node is within the height limit"
            if matches!(step, Step::Ok { .. }) {
                for l in crate::run::full_audit(&sim.state, matches!(a, XAct::Stabilise)) {
                    viol.push(Violation { property: "C11", rule: "audit", at: log.len(), detail: l });
                }
            }
            if matches!(a, XAct::Stabilise) {
                rounds += 1;
            }
            let twin_max = match &twin_steps[t] {
                Step::Ok { max_seen, .. } => *max_seen,
                _ => seen_so_far,
            };
            match (&twin_steps[t], &step) {
                (Step::Panicked(m), _) => {
                    bad!("twin-panicked", "the same history panicked under a limit of 4000: {}", m);
                    break;
                }
                (Step::Ok { reads: tr, .. }, Step::Ok { reads, max_seen }) => {
                    if twin_max > limit {
                        bad!("too-tall-accepted", "{:?} completed although it needs height {} and the limit is {}", a, twin_max, limit);
                        break;
                    }
                    if tr != reads {
                        bad!("values-differ-from-twin", "{:?}: observers return {:?}, under a large limit they return {:?}", a, reads, tr);
                        break;
                    }
                    seen_so_far = seen_so_far.max(*max_seen);
                }
                (Step::Ok { .. }, Step::Panicked(msg)) => {
                    if twin_max <= limit {
                        bad!("admissible-graph-rejected", "{:?} panicked ({}) although the graph only needs height {} and the limit is {}", a, msg, twin_max, limit);
                    } else {
                        if !matches!(a, XAct::Stabilise) {
                            bad!("limit-panic-not-at-stabilise", "{:?} panicked with {}", a, msg);
                        }
                        if !(msg.contains("height") && msg.contains(&limit.to_string())) {
                            bad!("limit-panic-without-diagnostic", "the panic for exceeding the height limit does not name it: {}", msg);
                        }
                        *out.faults.entry("misuse_height".into()).or_insert(0) += 1;
                    }
                    over = true;
                    break;
                }
                _ => {}
            }
        }
        // the handles can still be dropped afterwards
        let r = catch_unwind(AssertUnwindSafe(move || drop(sim)));
        if let Err(p) = r {
            let (msg, _) = panic_message(&p);
            bad!("drop-after-limit-panicked", "dropping the handles after the run panicked: {}", msg);
        }
        out.cov.bind_switches = over as u64;
        out.cov.reobserved = cfg.reconfigure.is_some() as u64;
    } else {
        // ---- misuse injected at a random point of an ordinary history
        let mut sim = Sim::new(2000);
        let calls = sim.calls.clone();
        let mut injected = false;
        let mut outcome: Option<Step> = None;
        for (t, a) in acts.iter().enumerate() {
            if t == cfg.misuse_at && !injected {
                injected = true;
                let st = sim.state.clone();
                let base = sim.ends[t % sim.ends.len()].clone();
                let holder: Rc<RefCell<Option<Incr<i64>>>> = Rc::new(RefCell::new(None));
                let nested_ran: Rc<Cell<u64>> = Rc::new(Cell::new(0));
                let other_state = IncrState::new();
                let foreign = other_state.constant(5i64);
                let r = catch_unwind(AssertUnwindSafe(|| {
                    match cfg.misuse {
                        1 => {
                            // b's closure returns a node that depends on b itself
                            let h = holder.clone();
                            let c = calls.clone();
                            let b = base.bind(move |_| {
                                tick(&c);
                                let me = h.borrow().clone().unwrap();
                                let c2 = c.clone();
                                me.map(move |x| {
                                    tick(&c2);
                                    norm(*x + 1)
                                })
                            });
                            *holder.borrow_mut() = Some(b.clone());
                            let o = b.observe();
                            st.stabilise();
                            drop(o);
                        }
                        2 => {
                            let h = holder.clone();
                            let c = calls.clone();
                            let b1 = base.bind(move |_| {
                                tick(&c);
                                let b2 = h.borrow().clone().unwrap();
                                let c2 = c.clone();
                                b2.map(move |x| {
                                    tick(&c2);
                                    norm(*x + 1)
                                })
                            });
                            let b1c = b1.clone();
                            let c = calls.clone();
                            let b2 = base.bind(move |_| {
                                tick(&c);
                                let c2 = c.clone();
                                b1c.map(move |x| {
                                    tick(&c2);
                                    norm(*x + 2)
                                })
                            });
                            *holder.borrow_mut() = Some(b2.clone());
                            let o = b1.observe();
                            st.stabilise();
                            drop(o);
                        }
                        3 => {
                            let f = foreign.clone();
                            let b = base.bind(move |_| f.clone());
                            let o = b.observe();
                            st.stabilise();
                            drop(o);
                        }
                        7 => {
                            // two binds that end up returning each other directly, reached in steps
                            let s1 = st.var(false);
                            let s2 = st.var(false);
                            let c0 = st.constant(0i64);
                            let (h1, h2) = (holder.clone(), Rc::new(RefCell::new(None::<Incr<i64>>)));
                            let (c1, c2) = (c0.clone(), c0.clone());
                            let h2b = h2.clone();
                            let b1 = s1.bind(move |s: &bool| if *s { h2b.borrow().clone().unwrap() } else { c1.clone() });
                            let b2 = s2.bind(move |s: &bool| if *s { h1.borrow().clone().unwrap() } else { c2.clone() });
                            *holder.borrow_mut() = Some(b1.clone());
                            *h2.borrow_mut() = Some(b2.clone());
                            let o = b1.observe();
                            st.stabilise();
                            s1.set(true);
                            st.stabilise();
                            s2.set(true);
                            let r = catch_unwind(AssertUnwindSafe(|| st.stabilise()));
                            drop(o);
                            *h2.borrow_mut() = None;
                            if let Err(p) = r {
                                std::panic::resume_unwind(p);
                            }
                        }
                        8 => {
                            // a node of another state that has already been dropped (the node is
                            // kept alive by the closure)
                            let f = {
                                let gone = IncrState::new();
                                gone.constant(9i64)
                            };
                            let b = base.bind(move |_| f.clone());
                            let o = b.observe();
                            let r = catch_unwind(AssertUnwindSafe(|| st.stabilise()));
                            let read = o.try_get_value();
                            drop(o);
                            match r {
                                Err(p) => std::panic::resume_unwind(p),
                                Ok(()) => {
                                    if read.is_ok() {
                                        // reported below as misuse-accepted
                                    }
                                }
                            }
                        }
                        6 => {
                            // a cycle closed through the "created in the right-hand side of" relation:
                            // b0 = switch.bind(|s| if s { node leaked from b's closure } else { constant })
                            // b = b0(+maps).bind(|_| { n = w.map(..); slot = n; n })
                            let switch = st.var(false);
                            let c0 = st.constant(0i64);
                            let h = holder.clone();
                            let b0 = switch.bind(move |s: &bool| if *s { h.borrow().clone().unwrap() } else { c0.clone() });
                            let mut lhs = b0.clone();
                            for _ in 0..(t % 3) {
                                lhs = lhs.map(|x| *x);
                            }
                            let h2 = holder.clone();
                            let w0 = base.clone();
                            let c = calls.clone();
                            let with_temp = t % 2 == 0;
                            let b = lhs.bind(move |_| {
                                tick(&c);
                                if with_temp {
                                    // a node created and thrown away by the closure before the one that matters
                                    let tmp = w0.map(|x| *x);
                                    drop(tmp);
                                }
                                let c2 = c.clone();
                                let n = w0.map(move |x| {
                                    tick(&c2);
                                    norm(*x + 1)
                                });
                                *h2.borrow_mut() = Some(n.clone());
                                n
                            });
                            let o = b.observe();
                            st.stabilise();
                            switch.set(true);
                            let r = catch_unwind(AssertUnwindSafe(|| st.stabilise()));
                            drop(o);
                            if let Err(p) = r {
                                std::panic::resume_unwind(p);
                            }
                        }
                        4 => {
                            // pending work above the misbehaving node: a dependant that would run
                            // if the nested call were let through
                            let ws = st.weak();
                            let (c, nr) = (calls.clone(), nested_ran.clone());
                            let m = base.map(move |x| {
                                let _g = NestedGuard { calls: c.clone(), before: c.get(), out: nr.clone() };
                                ws.upgrade().unwrap().stabilise();
                                *x
                            });
                            let c2 = calls.clone();
                            let m2 = m.map(move |x| {
                                tick(&c2);
                                *x
                            });
                            let o = m2.observe();
                            st.stabilise();
                            drop(o);
                        }
                        _ => {
                            // the handler first writes a variable (applied at once in the handler
                            // phase), so the nested call has work it could do
                            let ws = st.weak();
                            let pv = st.var(0i64);
                            let c2 = calls.clone();
                            let pm = pv.map(move |x| {
                                tick(&c2);
                                *x
                            });
                            let po = pm.observe();
                            let o = base.observe();
                            let (c, nr) = (calls.clone(), nested_ran.clone());
                            o.subscribe(move |_| {
                                pv.set(pv.get() + 1);
                                let _g = NestedGuard { calls: c.clone(), before: c.get(), out: nr.clone() };
                                ws.upgrade().unwrap().stabilise();
                            });
                            let r = catch_unwind(AssertUnwindSafe(|| st.stabilise()));
                            drop(o);
                            drop(po);
                            if let Err(p) = r {
                                std::panic::resume_unwind(p);
                            }
                        }
                    }
                }));
                *holder.borrow_mut() = None;
                let step = match r {
                    Ok(()) => Step::Ok { max_seen: 0, reads: vec![] },
                    Err(p) => Step::Panicked(panic_message(&p).0),
                };
                log.push(format!("misuse {} -> {:?}", cfg.misuse, step));
                if nested_ran.get() > 0 {
                    bad!("nested-stabilise-computed", "a stabilise called from inside a {} ran {} node function(s) before it was refused", if cfg.misuse == 4 { "node function" } else { "handler" }, nested_ran.get());
                }
                *out.faults.entry(["", "misuse_cycle", "misuse_cycle", "misuse_cross_state", "misuse_nested_stabilise", "misuse_nested_stabilise", "misuse_cycle_through_scope", "misuse_cycle", "misuse_cross_state"][(cfg.misuse as usize).min(8)].into()).or_insert(0) += 1;
                outcome = Some(step);
                drop(foreign);
                drop(other_state);
                break;
            }
            let step = sim.apply(a);
            if matches!(a, XAct::Stabilise) {
                rounds += 1;
            }
            log.push(format!("{:?} -> {:?}", a, step));
            if let Step::Panicked(m) = step {
                bad!("ordinary-history-panicked", "{:?} panicked in the ordinary part of the history: {}", a, m);
                break;
            }
        }
        match outcome {
            Some(Step::Panicked(msg)) => {
                if msg.contains("watchdog") {
                    bad!("misuse-loops", "the misuse made the engine loop until the callback budget ran out instead of panicking");
                }
                if matches!(cfg.misuse, 1 | 2 | 6 | 7) && !msg.to_lowercase().contains("cycl") {
                    bad!("cycle-panic-without-diagnostic", "closing a dependency cycle panicked without naming the cause: {}", msg);
                }
            }
            Some(_) => bad!("misuse-accepted", "misuse kind {} did not panic", cfg.misuse),
            None => {}
        }
        let r = catch_unwind(AssertUnwindSafe(move || drop(sim)));
        if let Err(p) = r {
            let (msg, _) = panic_message(&p);
            bad!("drop-after-misuse-panicked", "dropping the handles after the misuse panicked: {}", msg);
        }
        out.cov.bind_switches = injected as u64;
    }
    out.violations = viol;
    out.cov.rounds = rounds;
    out.actions = acts.len() as u64;
    out.events = log.len() as u64;
    out.probes = incremental::verif::take_probes().into_iter().map(|(k, v)| (k.to_string(), v)).collect();
    let mut h = Fnv::new();
    let mut shape = Fnv::new();
    shape.u64(cfg.n as u64);
    shape.u64(cfg.misuse as u64);
    for l in &log {
        h.str(l);
        shape.str(l.split("->").next().unwrap_or(""));
    }
    out.trace_hash = h.finish();
    out.shape_hash = shape.finish();
    if keep_trace {
        out.trace = Some(log.iter().map(|l| crate::trace::Ev::Note(l.clone())).collect());
    }
    out
}

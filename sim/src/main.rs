mod body;
mod closures;
mod crash;
mod exec;
mod gen;
mod model;
mod model_round;
mod model_step;
mod plan;
mod rng;
mod run;
mod trace;
mod world;

fn main() {
    run::install_panic_hook();
    let args: Vec<String> = std::env::args().collect();
    if args.get(1).map(|s| s.as_str()) == Some("show") {
        let seed: u64 = args[2].parse().unwrap();
        let prof = gen::Profile::base("dev");
        let plan = gen::gen_plan(seed, &prof);
        for (i, a) in plan.actions.iter().enumerate() {
            println!("A{i}: {:?}", a);
        }
        println!("knobs: {:?}", plan.knobs);
        let out = run::run_plan(&plan, true);
        for (i, e) in out.trace.unwrap().iter().enumerate() {
            println!("{i}: {:?}", e);
        }
        for v in out.violations.iter() {
            println!("VIOLATION {} {} at {}: {}", v.property, v.rule, v.at, v.detail);
        }
        return;
    }
    let n: u64 = args.get(1).and_then(|s| s.parse().ok()).unwrap_or(100);
    let base: u64 = args.get(2).and_then(|s| s.parse().ok()).unwrap_or(1);
    let prof = gen::Profile::base("dev");
    let mut by_rule: std::collections::BTreeMap<String, (u64, u64)> = Default::default();
    let t0 = std::time::Instant::now();
    for i in 0..n {
        let seed = rng::mix(base, i);
        let plan = gen::gen_plan(seed, &prof);
        let out = run::run_plan(&plan, false);
        for v in out.violations.iter().take(1) {
            let e = by_rule.entry(format!("{} {}", v.property, v.rule)).or_insert((0, seed));
            e.0 += 1;
            if e.0 == 1 {
                println!("seed {} -> {} {}: {}", seed, v.property, v.rule, v.detail);
            }
        }
    }
    println!("{} runs in {:?}", n, t0.elapsed());
    for (k, v) in by_rule {
        println!("{:6} {}  (first seed {})", v.0, k, v.1);
    }
}

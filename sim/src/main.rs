mod body;
mod closures;
mod crash;
mod engines;
mod expert;
mod limits;
mod mapeng;
mod xplan;
mod exec;
mod gen;
mod model;
mod model_round;
mod model_step;
mod orch;
mod plan;
mod rng;
mod run;
mod shrink;
mod spec;
mod templates;
mod trace;
mod world;

fn usage() -> ! {
    eprintln!("usage: simcheck check <property> <quick|thorough> | replay <file> | show <property> <seed> | dev <property> <runs> <batch>");
    std::process::exit(2)
}

fn main() {
    run::install_panic_hook();
    let args: Vec<String> = std::env::args().skip(1).collect();
    let Some(cmd) = args.first() else { usage() };
    match cmd.as_str() {
        "check" => {
            if args.len() < 3 {
                usage()
            }
            std::process::exit(orch::check(&args[1], &args[2]))
        }
        "replay" => std::process::exit(orch::replay(args.get(1).unwrap_or_else(|| usage()))),
        "worker" => {
            let a = args[1..].to_vec();
            let _ = run::on_runner_thread(move || orch::worker(&a));
        }
        "rehash" => {
            let a = args[1..].to_vec();
            let _ = run::on_runner_thread(move || orch::rehash(&a));
        }
        "minimise" => {
            let a = args[1..].to_vec();
            let _ = run::on_runner_thread(move || orch::minimise_file(&a));
        }
        "runplan" => {
            let a = args[1].clone();
            let _ = run::on_runner_thread(move || orch::runplan(&a));
        }
        "plan" => {
            // the generated plan for (property, seed) as JSON
            let plan = orch::gen_for(&args[1], args[2].parse().unwrap(), "quick");
            println!("{}", serde_json::to_string(&plan).unwrap());
        }
        "showplan" => {
            // full trace of the (minimised) plan stored in a replay file
            let a = args[1].clone();
            let _ = run::on_runner_thread(move || {
                let text = std::fs::read_to_string(&a).expect("read replay file");
                let v: serde_json::Value = serde_json::from_str(&text).expect("parse");
                let plan: plan::Plan = serde_json::from_value(v.get("plan").cloned().unwrap_or(v.clone())).expect("plan");
                for (i, a) in plan.actions.iter().enumerate() {
                    println!("A{i}: {:?}", a);
                }
                let out = orch::run_any(&plan, true);
                for (i, e) in out.trace.unwrap().iter().enumerate() {
                    println!("{i}: {:?}", e);
                }
                for v in out.violations.iter() {
                    println!("VIOLATION {} {} at {}: {}", v.property, v.rule, v.at, v.detail);
                }
            });
        }
        "show" => {
            let prop = &args[1];
            let seed: u64 = args[2].parse().unwrap();
            let mut plan = orch::gen_for(prop, seed, "quick");
            if let Some(k) = args.get(3) {
                plan.knobs.crash_at = Some(k.parse().unwrap());
            }
            for (i, a) in plan.actions.iter().enumerate() {
                println!("A{i}: {:?}", a);
            }
            println!("knobs: {:?}", plan.knobs);
            let out = orch::run_any(&plan, true);
            for (i, e) in out.trace.unwrap().iter().enumerate() {
                println!("{i}: {:?}", e);
            }
            for v in out.violations.iter() {
                println!("VIOLATION {} {} at {}: {}", v.property, v.rule, v.at, v.detail);
            }
        }
        "dev" => {
            let args = args.clone();
            let _ = run::on_runner_thread(move || {
            let prop = &args[1];
            let n: u64 = args.get(2).and_then(|s| s.parse().ok()).unwrap_or(1000);
            let base: u64 = args.get(3).and_then(|s| s.parse().ok()).unwrap_or(1);
            let start: u64 = args.get(4).and_then(|s| s.parse().ok()).unwrap_or(0);
            let mut by_rule: std::collections::BTreeMap<String, (u64, u64)> = Default::default();
            let t0 = std::time::Instant::now();
            let mut trig = 0;
            for i in start..start + n {
                let seed = rng::mix(base, i);
                let plan = orch::gen_for(prop, seed, "quick");
                let out = orch::run_any(&plan, false);
                if spec::trigger(prop, &out) {
                    trig += 1;
                }
                let mut seen_rules = std::collections::BTreeSet::new();
                for v in out.violations.iter().filter(|v| seen_rules.insert((v.property, v.rule))) {
                    let e = by_rule.entry(format!("{} {}", v.property, v.rule)).or_insert((0, seed));
                    e.0 += 1;
                    if e.0 == 1 {
                        println!("seed {} -> {} {}: {}", seed, v.property, v.rule, v.detail);
                    }
                }
            }
            println!("{} runs ({} non-trivial) in {:?}", n, trig, t0.elapsed());
            for (k, v) in by_rule {
                println!("{:6} {}  (first seed {})", v.0, k, v.1);
            }
            });
        }
        _ => usage(),
    }
}

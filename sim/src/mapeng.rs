//! Map engine (C15, C16, C17): incremental-map operators over BTreeMap, Rc<BTreeMap> and
//! im_rc::OrdMap driven by seeded edit histories with unobserve/re-observe, checked against plain
//! functions of the current input maps and against a "work proportional to the change" monitor.

use std::cell::{Cell, RefCell};
use std::collections::{BTreeMap, BTreeSet};
use std::panic::{catch_unwind, AssertUnwindSafe};
use std::rc::Rc;

use im_rc::OrdMap;
use incremental::{Cutoff, Incr, IncrState, Observer, Value, Var, WeakState};
use incremental_map::im_rc::Either;
use incremental_map::prelude::*;
use serde::{Deserialize, Serialize};

use crate::plan::*;
use crate::rng::{Fnv, Rng};
use crate::run::{panic_message, RunOutput};
use crate::trace::Violation;
use crate::xplan::XAct;

type B = BTreeMap<i64, i64>;

#[derive(Serialize, Deserialize, Clone, Copy, Debug, PartialEq, Eq)]
pub enum MapTy {
    BTree,
    RcBTree,
    Ord,
}

#[derive(Serialize, Deserialize, Clone, Copy, Debug, PartialEq, Eq)]
pub enum PerKey {
    PureMap,
    Map2Outer,
    BindOnValue,
    /// a bind on the outer variable: one branch uses the per-key input, the other ignores it
    BindOnOuter,
    IgnoresInput,
    SharedNode,
}

#[derive(Serialize, Deserialize, Clone, Copy, Debug, PartialEq, Eq)]
pub enum Op {
    Map,
    FilterMap,
    Mapi,
    FilterMapi,
    /// `set`: the accumulator is the set (bit mask) of keys with a positive value, an invertible
    /// but not commutative fold; otherwise a sum
    Fold { update: bool, revert: bool, #[serde(default)] set: bool },
    Merge,
    Partition,
    PartitionMapi,
    /// incr_mapi_ / incr_filter_mapi_ (+ _cutoff): per-key graphs
    Graph { filter: bool, cutoff: u8, f: PerKey },
}

#[derive(Serialize, Deserialize, Clone, Debug)]
pub struct MapCfg {
    pub ty: MapTy,
    pub op: Op,
    pub init0: Vec<(i64, i64)>,
    pub init1: Vec<(i64, i64)>,
    /// put Cutoff::Never on the input variable(s): rewriting an equal map still reaches the operator
    #[serde(default)]
    pub input_never: bool,
    /// the consumer of the operator keeps a clone of the last output it saw
    #[serde(default)]
    pub hold_snapshot: bool,
}

trait Conv: Value {
    fn from_b(b: &B) -> Self;
    fn to_b(&self) -> B;
}
impl Conv for B {
    fn from_b(b: &B) -> Self {
        b.clone()
    }
    fn to_b(&self) -> B {
        self.clone()
    }
}
impl Conv for Rc<B> {
    fn from_b(b: &B) -> Self {
        Rc::new(b.clone())
    }
    fn to_b(&self) -> B {
        (**self).clone()
    }
}
impl Conv for OrdMap<i64, i64> {
    fn from_b(b: &B) -> Self {
        b.iter().map(|(k, v)| (*k, *v)).collect()
    }
    fn to_b(&self) -> B {
        self.iter().map(|(k, v)| (*k, *v)).collect()
    }
}

// ---- the plain (non-incremental) definitions ------------------------------------------------

fn f_map(v: i64) -> i64 {
    norm(v + 1)
}
fn f_filter(v: i64) -> Option<i64> {
    (v.rem_euclid(2) == 0).then(|| v.div_euclid(2))
}
fn f_mapi(k: i64, v: i64) -> i64 {
    norm(k + v)
}
fn f_filter_mapi(k: i64, v: i64) -> Option<i64> {
    ((k + v).rem_euclid(3) != 0).then(|| k * v)
}
fn fold_term(k: i64, v: i64) -> i64 {
    v + 10 * k
}
fn set_add(acc: i64, k: i64, v: i64) -> i64 {
    if v > 0 { acc | (1 << k.rem_euclid(60)) } else { acc }
}
fn set_remove(acc: i64, k: i64, v: i64) -> i64 {
    if v > 0 { acc & !(1 << k.rem_euclid(60)) } else { acc }
}
fn f_merge(k: i64, l: Option<i64>, r: Option<i64>) -> Option<i64> {
    match (l, r) {
        (Some(a), None) => Some(a + k),
        (None, Some(b)) => Some(-b),
        (Some(a), Some(b)) => ((a + b).rem_euclid(4) != 0).then(|| a + b),
        (None, None) => None,
    }
}
fn per_key_ref(f: PerKey, k: i64, v: i64, outer: i64) -> i64 {
    match f {
        PerKey::PureMap => norm(v + 1),
        PerKey::Map2Outer => norm(v + outer),
        PerKey::BindOnValue => {
            if v.rem_euclid(2) == 0 {
                norm(outer + 1)
            } else {
                v
            }
        }
        PerKey::BindOnOuter => {
            if outer.rem_euclid(2) == 0 {
                norm(v + 2)
            } else {
                k
            }
        }
        PerKey::IgnoresInput => k * 2,
        PerKey::SharedNode => norm(outer * 2),
    }
}
fn graph_filter(x: i64) -> Option<i64> {
    (x.rem_euclid(3) != 0).then_some(x)
}

const FOLD_INIT: i64 = 1000;

/// The expected (normalised) output of the operator for the given inputs.
fn reference(cfg: &MapCfg, a: &B, b: &B, outer: i64) -> B {
    match cfg.op {
        Op::Map => a.iter().map(|(k, v)| (*k, f_map(*v))).collect(),
        Op::FilterMap => a.iter().filter_map(|(k, v)| f_filter(*v).map(|x| (*k, x))).collect(),
        Op::Mapi => a.iter().map(|(k, v)| (*k, f_mapi(*k, *v))).collect(),
        Op::FilterMapi => a.iter().filter_map(|(k, v)| f_filter_mapi(*k, *v).map(|x| (*k, x))).collect(),
        Op::Fold { set: true, .. } => {
            let s: i64 = a.iter().fold(0, |acc, (k, v)| set_add(acc, *k, *v));
            [(0, s)].into_iter().collect()
        }
        Op::Fold { .. } => {
            let s: i64 = a.iter().map(|(k, v)| fold_term(*k, *v)).sum();
            [(0, FOLD_INIT + s)].into_iter().collect()
        }
        Op::Merge => {
            let keys: BTreeSet<i64> = a.keys().chain(b.keys()).copied().collect();
            keys.into_iter().filter_map(|k| f_merge(k, a.get(&k).copied(), b.get(&k).copied()).map(|x| (k, x))).collect()
        }
        Op::Partition => a.iter().map(|(k, v)| if v.rem_euclid(2) == 0 { (*k, *v) } else { (100 + *k, *v) }).collect(),
        Op::PartitionMapi => a.iter().map(|(k, v)| if *v >= 2 { (*k, k + v) } else { (100 + *k, v * 2) }).collect(),
        Op::Graph { filter, f, .. } => a
            .iter()
            .filter_map(|(k, v)| {
                let x = per_key_ref(f, *k, *v, outer);
                if filter {
                    graph_filter(x).map(|y| (*k, y))
                } else {
                    Some((*k, x))
                }
            })
            .collect(),
    }
}

struct Calls {
    log: RefCell<Vec<(i64, &'static str)>>,
    total: Cell<u64>,
}
impl Calls {
    fn hit(&self, k: i64, role: &'static str) {
        self.total.set(self.total.get() + 1);
        self.log.borrow_mut().push((k, role));
    }
}

/// Conversion of an operator's output to the reference map type. With `hold`, the consumer
/// keeps a clone of the last output it saw (as a caller keeping `observer.value()` would), so
/// the operator's previous output is shared when it next recomputes.
fn conv_out<O: Conv + Clone + 'static>(hold: bool) -> impl FnMut(&O) -> B + 'static {
    let mut keep: Option<O> = None;
    move |o: &O| {
        if hold {
            keep = Some(o.clone());
        }
        let _ = &keep;
        o.to_b()
    }
}

fn generic_op<M>(input: &Incr<M>, op: Op, calls: &Rc<Calls>, hold: bool) -> Incr<B>
where
    M: Conv + SymmetricFoldMap<i64, i64> + SymmetricMapMap<i64, i64>,
    M::OutputMap<i64>: Conv + Clone + 'static,
{
    let c = calls.clone();
    match op {
        // incr_map / incr_filter_map do not hand the key to the user function: the monitor can
        // only count calls for these two
        Op::Map => input
            .incr_map(move |v: &i64| {
                c.hit(i64::MIN, "f");
                f_map(*v)
            })
            .map(conv_out(hold)),
        Op::FilterMap => input
            .incr_filter_map(move |v: &i64| {
                c.hit(i64::MIN, "f");
                f_filter(*v)
            })
            .map(conv_out(hold)),
        Op::Mapi => input
            .incr_mapi(move |k: &i64, v: &i64| {
                c.hit(*k, "f");
                f_mapi(*k, *v)
            })
            .map(conv_out(hold)),
        Op::FilterMapi => input
            .incr_filter_mapi(move |k: &i64, v: &i64| {
                c.hit(*k, "f");
                f_filter_mapi(*k, *v)
            })
            .map(conv_out(hold)),
        Op::Fold { update, revert, set } => {
            let (c1, c2, c3) = (calls.clone(), calls.clone(), calls.clone());
            let add = move |acc: i64, k: &i64, v: &i64| {
                c1.hit(*k, "add");
                if set { set_add(acc, *k, *v) } else { acc + fold_term(*k, *v) }
            };
            let remove = move |acc: i64, k: &i64, v: &i64| {
                c2.hit(*k, "remove");
                if set { set_remove(acc, *k, *v) } else { acc - fold_term(*k, *v) }
            };
            let init = if set { 0 } else { FOLD_INIT };
            let folded: Incr<i64> = if update {
                input.incr_unordered_fold_update(
                    init,
                    add,
                    remove,
                    move |acc: i64, k: &i64, old: &i64, new: &i64| {
                        c3.hit(*k, "update");
                        if set { set_add(set_remove(acc, *k, *old), *k, *new) } else { acc - fold_term(*k, *old) + fold_term(*k, *new) }
                    },
                    revert,
                )
            } else {
                input.incr_unordered_fold(init, add, remove, revert)
            };
            folded.map(|s| [(0i64, *s)].into_iter().collect::<B>())
        }
        _ => unreachable!(),
    }
}

fn per_key_fn(f: PerKey, ws: &WeakState, outer: &Incr<i64>, shared: &Incr<i64>, calls: &Rc<Calls>) -> impl FnMut(&i64, Incr<i64>) -> Incr<i64> + 'static {
    let ws = ws.clone();
    let outer = outer.clone();
    let shared = shared.clone();
    let calls = calls.clone();
    move |k: &i64, iv: Incr<i64>| -> Incr<i64> {
        let k = *k;
        calls.hit(k, "build");
        let c = calls.clone();
        match f {
            PerKey::PureMap => iv.map(move |v| {
                c.hit(k, "node");
                norm(*v + 1)
            }),
            PerKey::Map2Outer => iv.map2(&outer, move |v, o| {
                c.hit(k, "node2");
                norm(*v + *o)
            }),
            PerKey::BindOnValue => {
                let outer = outer.clone();
                let ws = ws.clone();
                iv.bind(move |v: &i64| {
                    c.hit(k, "bindfn");
                    if v.rem_euclid(2) == 0 {
                        outer.map(|o| norm(*o + 1))
                    } else {
                        ws.constant(*v)
                    }
                })
            }
            PerKey::BindOnOuter => {
                let ws = ws.clone();
                let c2 = c.clone();
                outer.bind(move |o: &i64| {
                    c.hit(k, "bindfn");
                    if o.rem_euclid(2) == 0 {
                        let c3 = c2.clone();
                        iv.map(move |v| {
                            // (a fresh node after every change of the outer variable)
                            c3.hit(k, "node2");
                            norm(*v + 2)
                        })
                    } else {
                        ws.constant(k)
                    }
                })
            }
            PerKey::IgnoresInput => ws.constant(k * 2),
            PerKey::SharedNode => shared.clone(),
        }
    }
}

macro_rules! graph_op {
    ($input:expr, $filter:expr, $cutoff:expr, $pk:expr) => {{
        let mut pk = $pk;
        let cut = |c: u8| -> Option<Cutoff<i64>> {
            match c {
                1 => Some(Cutoff::PartialEq),
                2 => Some(Cutoff::Never),
                3 => Some(Cutoff::Fn(|a, b| a == b)),
                // coarser than equality: entries in the same pair of values do not propagate
                4 => Some(Cutoff::Fn(|a, b| a.div_euclid(2) == b.div_euclid(2))),
                _ => None,
            }
        };
        match ($filter, cut($cutoff)) {
            (false, None) => $input.incr_mapi_(pk).map(|o| o.to_b()),
            (false, Some(c)) => $input.incr_mapi_cutoff(pk, c).map(|o| o.to_b()),
            (true, None) => $input.incr_filter_mapi_(move |k: &i64, iv: Incr<i64>| pk(k, iv).map(|x| graph_filter(*x))).map(|o| o.to_b()),
            (true, Some(c)) => $input.incr_filter_mapi_cutoff(move |k: &i64, iv: Incr<i64>| pk(k, iv).map(|x| graph_filter(*x)), c).map(|o| o.to_b()),
        }
    }};
}

macro_rules! merge_op {
    ($a:expr, $b:expr, $calls:expr) => {{
        let c = $calls.clone();
        $a.incr_merge($b, move |k: &i64, e: MergeElement<&i64, &i64>| {
            c.hit(*k, "merge");
            match e {
                MergeElement::Left(a) => f_merge(*k, Some(*a), None),
                MergeElement::Right(b) => f_merge(*k, None, Some(*b)),
                MergeElement::Both(a, b) => f_merge(*k, Some(*a), Some(*b)),
            }
        })
        .map(|o| o.to_b())
    }};
}

pub fn gen_plan(prop: &str, seed: u64) -> Plan {
    let mut r = Rng::stream(seed, 1);
    let mut sched = Rng::stream(seed, 3);
    let op = match prop {
        "C16" => {
            let cutoff = r.below(5) as u8;
            // (the coarse cutoff only with functions that read the outer variable, see the run loop)
            let f = if cutoff == 4 { *r.pick(&[PerKey::Map2Outer, PerKey::BindOnOuter]) } else { *r.pick(&[PerKey::PureMap, PerKey::Map2Outer, PerKey::BindOnValue, PerKey::BindOnOuter, PerKey::IgnoresInput, PerKey::SharedNode]) };
            Op::Graph { filter: r.chance(1, 2), cutoff, f }
        }
        "C15" => match r.below(9) {
            0 => Op::Map,
            1 => Op::FilterMap,
            2 => Op::Mapi,
            3 => Op::FilterMapi,
            4 | 5 => Op::Fold { update: r.chance(1, 2), revert: r.chance(1, 2), set: r.chance(1, 2) },
            6 => Op::Merge,
            7 => Op::Partition,
            _ => Op::PartitionMapi,
        },
        _ => match r.below(8) {
            0 => Op::Mapi,
            1 => Op::FilterMapi,
            2 | 3 => Op::Fold { update: r.chance(1, 2), revert: r.chance(1, 2), set: r.chance(1, 2) },
            4 => Op::Merge,
            5 => Op::PartitionMapi,
            _ => Op::Graph { filter: r.chance(1, 2), cutoff: r.below(4) as u8, f: *r.pick(&[PerKey::PureMap, PerKey::Map2Outer, PerKey::BindOnValue]) },
        },
    };
    let ty = match op {
        Op::Partition | Op::PartitionMapi => MapTy::Ord,
        Op::Merge | Op::Graph { .. } => *r.pick(&[MapTy::BTree, MapTy::Ord]),
        _ => *r.pick(&[MapTy::BTree, MapTy::RcBTree, MapTy::Ord]),
    };
    let rand_map = |r: &mut Rng| -> Vec<(i64, i64)> {
        let n = r.below(6);
        (0..n).map(|_| (r.range(0, 7), r.range(-2, 5))).collect()
    };
    let init0 = rand_map(&mut r);
    let init1 = rand_map(&mut r);
    let input_never = r.chance(1, 4);
    let hold_snapshot = r.chance(1, 3);
    let n_actions = r.range(8, 45) as usize;
    let mut acts = vec![XAct::Observe { out: 0 }, XAct::Stabilise];
    let two = matches!(op, Op::Merge);
    while acts.len() < n_actions {
        let m = if two { r.below(2) } else { 0 };
        let a = match r.weighted(&[14, 8, 2, 2, 2, 4, 4, 5, 12]) {
            0 => XAct::MapInsert { m, k: r.range(0, 7), v: r.range(-2, 5) },
            1 => XAct::MapRemove { m, k: r.range(0, 7) },
            2 => XAct::MapClear { m },
            3 => XAct::MapRefill { m, seed: r.next() },
            4 => XAct::MapTouch { m },
            5 => XAct::WriteOuter { v: r.range(-3, 8) },
            6 => XAct::Observe { out: r.below(2) },
            7 => XAct::DropObs { obs: r.below(8) },
            _ => XAct::Stabilise,
        };
        acts.push(a);
    }
    acts.push(XAct::Observe { out: 0 });
    acts.push(XAct::Stabilise);
    acts.push(XAct::Stabilise);
    let knobs = Knobs { hash_seed: sched.next(), tie_break: if sched.chance(25, 100) { Some(sched.next()) } else { None }, max_height: None, crash_at: None, dense_reads: true, audit: true, stop_on: String::new() };
    Plan { engine: "map".into(), actions: acts.into_iter().map(Action::X).collect(), knobs, extra: serde_json::json!({ "prop": prop, "cfg": MapCfg { ty, op, init0, init1, input_never, hold_snapshot } }) }
}

struct Vars {
    b: Option<(Var<B>, Var<B>)>,
    rc: Option<Var<Rc<B>>>,
    ord: Option<(Var<OrdMap<i64, i64>>, Var<OrdMap<i64, i64>>)>,
}
impl Vars {
    fn set(&self, m: usize, val: &B) {
        if let Some((a, b)) = &self.b {
            if m == 0 { a.set(val.clone()) } else { b.set(val.clone()) }
        }
        if let Some(a) = &self.rc {
            if m == 0 {
                a.set(Rc::new(val.clone()))
            }
        }
        if let Some((a, b)) = &self.ord {
            if m == 0 { a.set(Conv::from_b(val)) } else { b.set(Conv::from_b(val)) }
        }
    }
}

pub fn run_on_this_thread(plan: &Plan, keep_trace: bool) -> RunOutput {
    let prop: String = plan.extra["prop"].as_str().unwrap_or("C15").to_string();
    let prop_static: &'static str = match prop.as_str() {
        "C16" => "C16",
        "C17" => "C17",
        _ => "C15",
    };
    let cfg: MapCfg = serde_json::from_value(plan.extra["cfg"].clone()).expect("map cfg");
    let knobs = &plan.knobs;
    incremental::verif::reset_ids();
    incremental::verif::set_hash_seed(knobs.hash_seed);
    match knobs.tie_break {
        Some(seed) => {
            let mut rng = Rng::new(seed);
            incremental::verif::set_chooser(Some(Box::new(move |len| rng.below(len))));
        }
        None => incremental::verif::set_chooser(None),
    }
    incremental::verif::set_listener(None);
    let _ = incremental::verif::take_probes();
    let log: RefCell<Vec<String>> = RefCell::new(vec![]);
    let viol: RefCell<Vec<Violation>> = RefCell::new(vec![]);
    let bad = |prop: &'static str, rule: &'static str, detail: String| {
        let at = log.borrow().len();
        viol.borrow_mut().push(Violation { property: prop, rule, at, detail });
    };
    let calls = Rc::new(Calls { log: RefCell::new(vec![]), total: Cell::new(0) });
    let mut out = RunOutput::default();
    let (mut rounds, mut reads, mut audits, mut actions_done) = (0u64, 0u64, 0u64, 0u64);
    let (mut reobserved, mut emptied, mut refilled, mut strict_subset_rounds) = (0u64, 0u64, 0u64, 0u64);

    let body = catch_unwind(AssertUnwindSafe(|| {
        let state = IncrState::new();
        let ws = state.weak();
        let mut cur: [B; 2] = [cfg.init0.iter().copied().collect(), cfg.init1.iter().copied().collect()];
        let mut outer_at_needed_stab: Option<i64> = None;
        let mut all_keys_fresh = false;
        let coarse = matches!(cfg.op, Op::Graph { cutoff: 4, .. });
        let mut outer_val = 1i64;
        let outer: Var<i64> = state.var(outer_val);
        let shared: Incr<i64> = outer.map(|o| norm(*o * 2));
        let mut vars = Vars { b: None, rc: None, ord: None };
        let output: Incr<B> = match (cfg.ty, cfg.op) {
            (MapTy::BTree, Op::Merge) => {
                let (a, b) = (state.var(cur[0].clone()), state.var(cur[1].clone()));
                let o = merge_op!(a, &b.watch(), calls);
                vars.b = Some((a, b));
                o
            }
            (MapTy::Ord, Op::Merge) => {
                let (a, b): (Var<OrdMap<i64, i64>>, Var<OrdMap<i64, i64>>) = (state.var(Conv::from_b(&cur[0])), state.var(Conv::from_b(&cur[1])));
                let o = merge_op!(a, &b.watch(), calls);
                vars.ord = Some((a, b));
                o
            }
            (MapTy::BTree, Op::Graph { filter, cutoff, f }) => {
                let (a, b) = (state.var(cur[0].clone()), state.var(cur[1].clone()));
                let o = graph_op!(a, filter, cutoff, per_key_fn(f, &ws, &outer.watch(), &shared, &calls));
                vars.b = Some((a, b));
                o
            }
            (MapTy::Ord, Op::Graph { filter, cutoff, f }) => {
                let (a, b): (Var<OrdMap<i64, i64>>, Var<OrdMap<i64, i64>>) = (state.var(Conv::from_b(&cur[0])), state.var(Conv::from_b(&cur[1])));
                let o = graph_op!(a, filter, cutoff, per_key_fn(f, &ws, &outer.watch(), &shared, &calls));
                vars.ord = Some((a, b));
                o
            }
            (_, Op::Partition) => {
                let (a, b): (Var<OrdMap<i64, i64>>, Var<OrdMap<i64, i64>>) = (state.var(Conv::from_b(&cur[0])), state.var(Conv::from_b(&cur[1])));
                let c = calls.clone();
                let parts = a.incr_partition(move |k: &i64, v: &i64| {
                    c.hit(*k, "pred");
                    v.rem_euclid(2) == 0
                });
                // downstream map_ref on the two partition outputs
                let l = parts.map_ref(|t| &t.0);
                let rr = parts.map_ref(|t| &t.1);
                vars.ord = Some((a, b));
                l.map2(&rr, |l, r| l.iter().map(|(k, v)| (*k, *v)).chain(r.iter().map(|(k, v)| (100 + *k, *v))).collect::<B>())
            }
            (_, Op::PartitionMapi) => {
                let (a, b): (Var<OrdMap<i64, i64>>, Var<OrdMap<i64, i64>>) = (state.var(Conv::from_b(&cur[0])), state.var(Conv::from_b(&cur[1])));
                let c = calls.clone();
                let parts = a.incr_partition_mapi(move |k: &i64, v: &i64| {
                    c.hit(*k, "pred");
                    if *v >= 2 {
                        Either::Left(k + v)
                    } else {
                        Either::Right(v * 2)
                    }
                });
                let l = parts.map_ref(|t| &t.0);
                let rr = parts.map_ref(|t| &t.1);
                vars.ord = Some((a, b));
                l.map2(&rr, |l, r| l.iter().map(|(k, v)| (*k, *v)).chain(r.iter().map(|(k, v)| (100 + *k, *v))).collect::<B>())
            }
            (MapTy::BTree, op) => {
                let (a, b) = (state.var(cur[0].clone()), state.var(cur[1].clone()));
                let o = generic_op::<B>(&a.watch(), op, &calls, cfg.hold_snapshot);
                vars.b = Some((a, b));
                o
            }
            (MapTy::RcBTree, op) => {
                let a: Var<Rc<B>> = state.var(Rc::new(cur[0].clone()));
                let o = generic_op::<Rc<B>>(&a.watch(), op, &calls, cfg.hold_snapshot);
                vars.rc = Some(a);
                o
            }
            (MapTy::Ord, op) => {
                let (a, b): (Var<OrdMap<i64, i64>>, Var<OrdMap<i64, i64>>) = (state.var(Conv::from_b(&cur[0])), state.var(Conv::from_b(&cur[1])));
                let o = generic_op::<OrdMap<i64, i64>>(&a.watch(), op, &calls, cfg.hold_snapshot);
                vars.ord = Some((a, b));
                o
            }
        };
        if cfg.input_never {
            if let Some((a, b)) = &vars.b {
                a.set_cutoff(Cutoff::Never);
                b.set_cutoff(Cutoff::Never);
            }
            if let Some(a) = &vars.rc {
                a.set_cutoff(Cutoff::Never);
            }
            if let Some((a, b)) = &vars.ord {
                a.set_cutoff(Cutoff::Never);
                b.set_cutoff(Cutoff::Never);
            }
        }
        let downstream: Incr<B> = output.map(|m| [(0i64, m.len() as i64)].into_iter().collect::<B>());
        let outputs = [output, downstream];
        let mut observers: Vec<Option<(usize, Observer<B>, bool)>> = vec![];
        // C17 model: the inputs as the operator last saw them (None = never computed)
        let mut last_seen: Option<[B; 2]> = None;
        let mut last_outer: Option<i64> = None;
        let mut was_observed_ever = false;

        for a in plan.actions.iter() {
            let Action::X(a) = a else { continue };
            actions_done += 1;
            log.borrow_mut().push(format!("ACT {:?}", a));
            let mut stabilised = false;
            match a {
                XAct::MapInsert { m, k, v } => {
                    cur[*m % 2].insert(*k, *v);
                    vars.set(*m % 2, &cur[*m % 2]);
                }
                XAct::MapRemove { m, k } => {
                    cur[*m % 2].remove(k);
                    vars.set(*m % 2, &cur[*m % 2]);
                }
                XAct::MapClear { m } => {
                    if !cur[*m % 2].is_empty() {
                        emptied += 1;
                    }
                    cur[*m % 2].clear();
                    vars.set(*m % 2, &cur[*m % 2]);
                }
                XAct::MapRefill { m, seed } => {
                    let mut r = Rng::new(*seed);
                    if cur[*m % 2].is_empty() {
                        refilled += 1;
                    }
                    let n = 1 + r.below(6);
                    cur[*m % 2] = (0..n).map(|_| (r.range(0, 7), r.range(-2, 5))).collect();
                    vars.set(*m % 2, &cur[*m % 2]);
                }
                XAct::MapTouch { m } => vars.set(*m % 2, &cur[*m % 2]),
                XAct::WriteOuter { v } => {
                    outer_val = norm(*v);
                    outer.set(outer_val);
                }
                XAct::Observe { out } => {
                    if was_observed_ever && !observers.iter().flatten().any(|_| true) {
                        reobserved += 1;
                    }
                    let o = outputs[*out % 2].observe();
                    observers.push(Some((*out % 2, o, false)));
                    was_observed_ever = true;
                }
                XAct::DropObs { obs } => {
                    let live: Vec<usize> = observers.iter().enumerate().filter(|(_, o)| o.is_some()).map(|(i, _)| i).collect();
                    if !live.is_empty() {
                        let i = live[*obs % live.len()];
                        observers[i] = None;
                    }
                }
                XAct::Stabilise => {
                    calls.log.borrow_mut().clear();
                    let needed = observers.iter().flatten().count() > 0;
                    // under a cutoff coarser than equality an output may lag behind its entry; but a
                    // change of the outer variable makes every per-key node that reads it run again, on
                    // the entry's current value (the engine stores a result even when it is cut off)
                    if needed {
                        all_keys_fresh = outer_at_needed_stab != Some(outer_val);
                        outer_at_needed_stab = Some(outer_val);
                    } else {
                        all_keys_fresh = false;
                    }
                    state.stabilise();
                    rounds += 1;
                    stabilised = true;
                    for o in observers.iter_mut().flatten() {
                        o.2 = true;
                    }
                    // ---- C17: work proportional to the change
                    let round_calls = calls.log.borrow().clone();
                    log.borrow_mut().push(format!("calls {:?}", round_calls));
                    if !needed {
                        if !round_calls.is_empty() {
                            bad("C17", "work-while-unobserved", format!("user functions ran ({:?}) although the operator has no observer", round_calls));
                        }
                    } else {
                        let all_keys: BTreeSet<i64> = cur[0].keys().chain(cur[1].keys()).copied().collect();
                        let (allowed, initial): (BTreeSet<i64>, bool) = match &last_seen {
                            None => (all_keys.clone(), true),
                            Some(ls) => {
                                let mut s = BTreeSet::new();
                                for m in 0..2 {
                                    for k in ls[m].keys().chain(cur[m].keys()) {
                                        if ls[m].get(k) != cur[m].get(k) {
                                            s.insert(*k);
                                        }
                                    }
                                }
                                (s, false)
                            }
                        };
                        let outer_changed = last_outer != Some(outer_val);
                        if !initial && !allowed.is_empty() && allowed.len() < all_keys.len() {
                            strict_subset_rounds += 1;
                        }
                        let mut seen: BTreeSet<(i64, &'static str)> = BTreeSet::new();
                        let mut anonymous = 0usize;
                        for (k, role) in round_calls.iter() {
                            if *k == i64::MIN {
                                anonymous += 1;
                                continue;
                            }
                            // per-key nodes that also read the outer variable legitimately rerun when it changes
                            let outer_role = matches!(*role, "node2" | "bindfn") || (*role == "node" && false);
                            if !allowed.contains(k) && !(outer_role && outer_changed) && !(*role == "bindfn") {
                                bad("C17", "work-on-unchanged-key", format!("{} was invoked for key {} whose entry did not change (changed keys: {:?})", role, k, allowed));
                            }
                            if !seen.insert((*k, *role)) && !matches!(*role, "bindfn" | "node2") {
                                bad("C17", "repeated-work", format!("{} was invoked more than once for key {} in one stabilise", role, k));
                            }
                        }
                        if anonymous > allowed.len() {
                            bad("C17", "too-many-calls", format!("the user function was invoked {} times but only {} entries changed", anonymous, allowed.len()));
                        }
                        last_seen = Some(cur.clone());
                        last_outer = Some(outer_val);
                    }
                }
                _ => {}
            }
            for (oi, o) in observers.iter().enumerate() {
                let Some((outi, obs, been)) = o else { continue };
                reads += 1;
                let got = obs.try_get_value();
                if !*been {
                    if got != Err(incremental::ObserverError::NeverStabilised) {
                        bad(prop_static, "new-observer", format!("new observer returned {:?}", got));
                    }
                    continue;
                }
                if stabilised && (!coarse || all_keys_fresh) {
                    let mut exp = reference(&cfg, &cur[0], &cur[1], outer_val);
                    if *outi == 1 {
                        exp = [(0i64, exp.len() as i64)].into_iter().collect();
                    }
                    log.borrow_mut().push(format!("read obs{} -> {:?}", oi, got));
                    if got.as_ref().ok() != Some(&exp) {
                        let p = if matches!(cfg.op, Op::Graph { .. }) { "C16" } else { "C15" };
                        bad(p, "wrong-output", format!("{:?} over {:?}: output {} is {:?}, the plain definition gives {:?} (inputs {:?} / {:?}, outer {})", cfg.op, cfg.ty, outi, got, exp, cur[0], cur[1], outer_val));
                    }
                }
            }
            let lines = crate::run::full_audit(&state, stabilised);
            audits += 1;
            for l in lines {
                bad("C11", "audit", l);
            }
            // like the core engine: under a check, only a violation of the property being checked
            // ends the run (an audit line describes latent damage whose symptom may come later)
            let stop_on = plan.knobs.stop_on.as_str();
            if viol.borrow().iter().any(|v| stop_on.is_empty() || v.property == stop_on || (stop_on != "C11" && v.property != "C11")) {
                break;
            }
        }
        drop(observers);
        drop(outputs);
        drop(vars);
        drop(state);
    }));
    if let Err(p) = body {
        let (msg, _) = panic_message(&p);
        log.borrow_mut().push(format!("PANIC {}", msg));
        let p2 = if matches!(cfg.op, Op::Graph { .. }) { "C16" } else { "C15" };
        bad(if prop_static == "C17" { "C17" } else { p2 }, "panic", format!("{:?} over {:?} panicked: {}", cfg.op, cfg.ty, msg));
        out.panics.push(msg);
    }
    incremental::verif::set_chooser(None);
    out.violations = viol.borrow().clone();
    out.cov.rounds = rounds;
    out.cov.reads_checked = reads;
    out.cov.audits = audits;
    out.cov.invocations = calls.total.get();
    out.cov.reobserved = reobserved;
    out.cov.bind_switches = emptied + refilled;
    out.cov.may_run_only = strict_subset_rounds;
    out.actions = actions_done;
    out.events = log.borrow().len() as u64;
    out.faults.insert("disconnect_reobserve".into(), reobserved);
    out.faults.insert("map_emptied".into(), emptied);
    out.faults.insert("map_refilled".into(), refilled);
    out.probes = incremental::verif::take_probes().into_iter().map(|(k, v)| (k.to_string(), v)).collect();
    let mut h = Fnv::new();
    let mut shape = Fnv::new();
    shape.str(&format!("{:?}{:?}", cfg.op, cfg.ty));
    for l in log.borrow().iter() {
        h.str(l);
        if l.starts_with("calls") {
            shape.str(l);
        }
    }
    out.trace_hash = h.finish();
    out.shape_hash = shape.finish();
    if keep_trace {
        out.trace = Some(log.borrow().iter().map(|l| crate::trace::Ev::Note(l.clone())).collect());
    }
    out
}

//! The reference model ("spec engine") and the oracles of the core engine.
//!
//! It shares no code with /repo. It consumes the trace online, event by event. It never predicts
//! the order in which the engine recomputes nodes: it *follows* the engine's recompute events and
//! checks that each one is legal (the node is needed, stale, of a live bind generation, its inputs
//! final), and at the end of propagation checks completeness (nothing needed is left stale, every
//! cached value is consistent, observers equal a from-scratch evaluation).

use std::collections::{BTreeMap, BTreeSet};

use crate::plan::*;
use crate::trace::*;

#[derive(Clone, Copy, Debug, PartialEq, Eq)]
pub enum OState {
    Created,
    InUse,
    Disallowed,
    Unlinked,
}

#[derive(Clone, Copy, Debug, PartialEq, Eq)]
pub enum Prev {
    Never,
    Init,
    Changed,
    Invalidated,
}

#[derive(Clone, Debug)]
pub struct MNode {
    pub rk: RK,
    pub pair: bool,
    pub scope: Option<(Hid, u32)>,
    pub held: bool,
    pub engine_id: usize,
    pub cutoff: CutoffSpec,
    pub cutoff_set: bool,
    /// some cutoff this node has had could suppress unequal values
    pub had_noneq_cutoff: bool,
    /// every round since the last definite change in which the node may have changed (R2)
    pub maybe_history: Vec<u32>,
    pub value: Option<MV>,
    pub last_run: Option<u32>,
    pub last_changed: Option<u32>,
    pub invalid: bool,
    /// round in which it became invalid
    pub invalid_since: Option<u32>,
    /// the engine itself reported this node as invalidated (hook H5)
    pub engine_invalid: bool,
    pub prev_value: Option<MV>,
    /// map_ref only: round in which it may or may not have reported a change (relaxation R2)
    pub maybe_changed: Option<u32>,
    // bind-only state
    pub gen: Option<u32>,
    pub cur_l: Option<i64>,
    pub rhs: Option<Hid>,
    pub lc_last_run: Option<u32>,
    // per-round scratch
    pub runs: u32,
    pub last_run_pos: usize,
    pub fold_steps: Vec<(i64, i64, i64)>,
    pub awaiting_invoke: bool,
    pub node_handlers: u32,
}

#[derive(Clone, Debug)]
pub struct MVar {
    pub hid: Hid,
    pub value: MV,
    pub pending: Option<MV>,
    /// index of the first round that must see the latest write
    pub set_round: u32,
    pub handle: bool,
}

#[derive(Clone, Debug)]
pub struct MObs {
    pub hid: Hid,
    pub state: OState,
    pub clones: Vec<bool>,
    /// what the observer returned when last read at a quiescent point after the last round
    pub last_seen: Option<RR>,
}

#[derive(Clone, Debug)]
pub struct MSub {
    pub oid: usize,
    pub prev: Prev,
    pub live: bool,
    /// created before the handler phase of this round index (eligible from that round on)
    pub eligible_from: u32,
    pub delivered_this_round: bool,
}

#[derive(Clone, Copy, Debug, PartialEq, Eq)]
pub enum Phase {
    Outside,
    Propagating,
    Handlers,
}

#[derive(Default, Clone, Debug)]
pub struct Coverage {
    pub rounds: u64,
    pub invocations: u64,
    pub bind_switches: u64,
    pub reobserved: u64,
    pub disconnect_writes: u64,
    pub cutoff_true: u64,
    pub cutoff_false: u64,
    pub notifications: u64,
    pub invalidated_nodes: u64,
    pub deferred_writes: u64,
    pub handler_writes: u64,
    pub reads_checked: u64,
    pub may_run_only: u64,
    pub relax_r2: u64,
    pub direct_old_rhs_runs: u64,
    pub audits: u64,
    pub lifecycle_errors_checked: u64,
    pub idle_rounds_with_writes: u64,
    pub spurious_queue_rounds: u64,
    pub c01_value_checks: u64,
    pub c01_skipped_noneq_cutoff: u64,
    pub memo_calls: u64,
    pub memo_hits: u64,
    pub memo_recreated: u64,
}

pub struct Model {
    pub nodes: Vec<MNode>,
    pub vars: Vec<MVar>,
    pub obs: Vec<MObs>,
    pub subs: Vec<MSub>,
    pub by_engine: BTreeMap<usize, Hid>,
    pub phase: Phase,
    pub rounds_started: u32,
    pub round: u32,
    pub violations: Vec<Violation>,
    pub cov: Coverage,
    pub state_alive: bool,
    pub poisoned: bool,
    // round scratch
    pub cone_start: BTreeSet<Hid>,
    /// needed at the end of the previous stabilise
    pub nec_before_round: BTreeSet<Hid>,
    pub necessary: BTreeSet<Hid>,
    pub run_order: Vec<(Hid, usize)>,
    pub expected_notifs: BTreeMap<usize, Upd>,
    pub expected_optional: BTreeSet<usize>,
    /// nodes that became necessary during the current round
    pub transient: BTreeSet<Hid>,
    /// nodes that became unnecessary during the propagation phase of the current round
    pub lost_necessity: BTreeSet<Hid>,
    pub unobserved_writes: BTreeSet<Hid>,
    pub was_necessary_ever: BTreeSet<Hid>,
    pub dropped_var_since_round: bool,
    /// some handle (node, var, observer, memoised function) was dropped or disallowed since the
    /// last completed stabilise
    pub dropped_handle_since_round: bool,
    /// value of the flag when the current round's propagation ended (handler-phase panics)
    pub dropped_handle_since_round_prev: bool,
    pub new_obs_since_round: bool,
    pub any_noneq_cutoff: bool,
    pub memo_live: BTreeMap<(usize, i64), Hid>,
    pub memo_srcs: Vec<Hid>,
    pub memo_held: Vec<bool>,
    /// for a function memoised inside a bind closure: the top-level memoised function its
    /// constructor calls (and so keeps alive), if any
    pub memo_calls_memo: Vec<Option<usize>>,
    /// observers that ever subscribed / unsubscribed / were disallowed or dropped, per node
    pub lifecycle_ops: BTreeMap<Hid, BTreeSet<usize>>,
    /// nodes reachable from the driver's handles when the current stabilise started
    pub reach_start: BTreeSet<Hid>,
    pub nodes_at_round_start: usize,
    pub leak_checks: u64,
    pub current_fold: Option<Hid>,
    pub shape: crate::rng::Fnv,
}

macro_rules! viol {
    ($self:ident, $at:expr, $prop:expr, $rule:expr, $($arg:tt)*) => {
        $self.violations.push(Violation { property: $prop, rule: $rule, at: $at, detail: format!($($arg)*) })
    };
}

impl Model {
    pub fn new(_knobs: &Knobs) -> Self {
        Model {
            nodes: vec![],
            vars: vec![],
            obs: vec![],
            subs: vec![],
            by_engine: BTreeMap::new(),
            phase: Phase::Outside,
            rounds_started: 0,
            round: 0,
            violations: vec![],
            cov: Coverage::default(),
            state_alive: true,
            poisoned: false,
            cone_start: BTreeSet::new(),
            nec_before_round: BTreeSet::new(),
            necessary: BTreeSet::new(),
            run_order: vec![],
            expected_notifs: BTreeMap::new(),
            expected_optional: BTreeSet::new(),
            transient: BTreeSet::new(),
            lost_necessity: BTreeSet::new(),
            unobserved_writes: BTreeSet::new(),
            was_necessary_ever: BTreeSet::new(),
            dropped_var_since_round: false,
            dropped_handle_since_round: false,
            dropped_handle_since_round_prev: false,
            new_obs_since_round: false,
            any_noneq_cutoff: false,
            memo_live: BTreeMap::new(),
            memo_srcs: vec![],
            memo_held: vec![],
            memo_calls_memo: vec![],
            lifecycle_ops: BTreeMap::new(),
            reach_start: BTreeSet::new(),
            nodes_at_round_start: 0,
            leak_checks: 0,
            current_fold: None,
            shape: crate::rng::Fnv::new(),
        }
    }

    /// Is run `g` of bind `b` still the current one (and the bind valid)?
    pub fn bind_run_is_current(&self, b: Hid, g: u32) -> bool {
        self.nodes.get(b).map_or(false, |n| !n.invalid && n.gen == Some(g))
    }
    /// Invalid for the model *and* reported invalid by the engine (a bind dropped by its only
    /// dependant in the round in which its input became invalid is invalidated lazily by the
    /// engine, and so are its nodes: those do not count).
    pub fn is_invalid(&self, h: Hid) -> bool {
        self.nodes.get(h).map_or(false, |n| n.invalid && n.engine_invalid)
    }
    pub fn rounds_started(&self) -> u32 {
        self.rounds_started
    }

    // ------------------------------------------------------------------ graph helpers

    /// current dependency edges of a node (none once invalid)
    pub fn children(&self, h: Hid) -> Vec<Hid> {
        let n = &self.nodes[h];
        if n.invalid {
            return vec![];
        }
        match &n.rk {
            RK::Bind { lhs, .. } => {
                let mut v = vec![*lhs];
                if let Some(r) = n.rhs {
                    v.push(r);
                }
                v
            }
            rk => crate::world::rk_inputs(rk),
        }
    }

    /// Current value of a node as a dependant or observer sees it. A map_ref node is a view: it
    /// always shows the projection of whatever its input currently holds.
    pub fn val(&self, h: Hid) -> Option<MV> {
        let n = &self.nodes[h];
        if n.invalid {
            return None;
        }
        match &n.rk {
            RK::MapRef { src, proj } => match self.val(*src) {
                Some(MV::P(a, b)) => Some(MV::I(if *proj == 0 { a } else { b })),
                // proj 2: the identity view of a scalar node
                Some(MV::I(x)) if *proj == 2 => Some(MV::I(x)),
                _ => None,
            },
            RK::MapRefQ { src } => match self.val(*src) {
                Some(MV::Q(a, b, _)) => Some(MV::P(a, b)),
                _ => None,
            },
            _ => n.value,
        }
    }

    pub fn cone(&self, roots: impl Iterator<Item = Hid>) -> BTreeSet<Hid> {
        let mut seen = BTreeSet::new();
        let mut stack: Vec<Hid> = roots.collect();
        while let Some(h) = stack.pop() {
            if seen.insert(h) {
                for c in self.children(h) {
                    if !seen.contains(&c) {
                        stack.push(c);
                    }
                }
            }
        }
        seen
    }

    pub(crate) fn observed_roots(&self) -> Vec<Hid> {
        self.obs
            .iter()
            .filter(|o| matches!(o.state, OState::InUse | OState::Disallowed))
            .map(|o| o.hid)
            .collect()
    }

    /// Propagates invalidity upwards inside the cone of `root` (map-like nodes with an invalid
    /// input, binds with an invalid left-hand side), to fixpoint.
    pub(crate) fn spread_invalidity(&mut self, root: Hid) {
        loop {
            let cone = self.cone(std::iter::once(root));
            let mut changed = false;
            for &h in cone.iter() {
                if self.nodes[h].invalid {
                    continue;
                }
                let bad = match &self.nodes[h].rk {
                    RK::Bind { lhs, .. } => self.nodes[*lhs].invalid,
                    rk => crate::world::rk_inputs(rk).iter().any(|c| self.nodes[*c].invalid),
                };
                if bad {
                    self.invalidate(h);
                    changed = true;
                }
            }
            if !changed {
                return;
            }
        }
    }

    /// Recomputes the necessary set and propagates invalidity to needed dependants, to fixpoint.
    pub(crate) fn refresh_necessity(&mut self) {
        loop {
            let nec = self.cone(self.observed_roots().into_iter());
            let mut changed = false;
            for &h in nec.iter() {
                if self.nodes[h].invalid {
                    continue;
                }
                let bad = match &self.nodes[h].rk {
                    RK::Bind { lhs, .. } => self.nodes[*lhs].invalid,
                    rk => crate::world::rk_inputs(rk).iter().any(|c| self.nodes[*c].invalid),
                };
                if bad {
                    self.invalidate(h);
                    changed = true;
                }
            }
            if !changed {
                for h in nec.iter() {
                    self.was_necessary_ever.insert(*h);
                }
                self.necessary = nec;
                return;
            }
        }
    }

    pub(crate) fn invalidate(&mut self, h: Hid) {
        if self.nodes[h].invalid {
            return;
        }
        self.nodes[h].invalid = true;
        self.nodes[h].invalid_since = Some(self.round);
        self.nodes[h].value = None;
        self.nodes[h].last_changed = Some(self.round);
        self.nodes[h].last_run = Some(self.round);
        self.cov.invalidated_nodes += 1;
        // a bind's main node going invalid takes everything its closure built with it
        if matches!(self.nodes[h].rk, RK::Bind { .. }) {
            self.invalidate_scope(h, u32::MAX);
        }
    }

    /// invalidates every node created by generations < `below` of bind `b`
    pub(crate) fn invalidate_scope(&mut self, b: Hid, below: u32) {
        let victims: Vec<Hid> = self
            .nodes
            .iter()
            .enumerate()
            .filter(|(_, n)| matches!(n.scope, Some((sb, g)) if sb == b && g < below) && !n.invalid)
            .map(|(i, _)| i)
            .collect();
        for v in victims {
            self.invalidate(v);
        }
    }

    /// Is bind `b` kept necessary by an observer of its own (and so are all binds enclosing it)?
    /// `without` = an observer to disregard. `before` = the observer on whose behalf we ask: new
    /// observers are linked in creation order at the start of the next stabilise, so an observer
    /// that is itself still waiting to be linked only pins the bind for observers created after it.
    pub fn pinned(&self, b: Hid, without: Option<usize>, before: Option<usize>) -> bool {
        let direct = self.obs.iter().enumerate().any(|(i, o)| {
            o.hid == b
                && Some(i) != without
                && match o.state {
                    OState::InUse => true,
                    OState::Created => before.map_or(true, |x| i < x),
                    _ => false,
                }
        });
        if !direct || self.nodes[b].invalid {
            return false;
        }
        match self.nodes[b].scope {
            None => true,
            Some((ob, og)) => self.nodes[ob].gen == Some(og) && self.pinned(ob, without, before),
        }
    }

    /// Relaxation R4 (generation guard only, never an oracle): a valid node built by a bind
    /// closure may only be (or stay) needed from outside while its defining bind is kept
    /// necessary by an observer of its own. The engine deliberately panics otherwise ("trying to
    /// make a node necessary whose defining bind is not necessary").
    pub fn can_observe(&self, hid: Hid) -> bool {
        let becoming = self.cone(std::iter::once(hid));
        for m in becoming {
            let n = &self.nodes[m];
            if let Some((b, g)) = n.scope {
                if n.invalid {
                    // invalid for the model but not (yet) for the engine: a bind that was dropped
                    // by its only dependant in the very round in which its input became invalid
                    // is invalidated lazily by the engine, and so are its nodes. Do not touch them.
                    if !n.engine_invalid {
                        return false;
                    }
                    continue;
                }
                if self.nodes[b].gen != Some(g) || !self.pinned(b, None, None) {
                    return false;
                }
            }
        }
        true
    }

    /// May observer `oid` end (last handle dropped / disallowed) right now? Not if some observer
    /// created since the last stabilise still waits to be linked and relies on `oid` to keep the
    /// defining bind of a node in its cone necessary at that moment (the engine would hit its
    /// deliberate "defining bind is not necessary" panic). Generation guard only.
    pub fn can_end_observer(&self, oid: usize) -> bool {
        // an observer that is already linked stays linked until the new observers of the next
        // stabilise have been linked (the engine unlinks afterwards): ending it cannot starve them
        if self.obs[oid].state == OState::InUse {
            return true;
        }
        for (i, o) in self.obs.iter().enumerate() {
            if i == oid || o.state != OState::Created {
                continue;
            }
            for m in self.cone(std::iter::once(o.hid)) {
                let n = &self.nodes[m];
                if let Some((b, g)) = n.scope {
                    if !n.invalid && self.nodes[b].gen == Some(g) && !self.pinned(b, Some(oid), Some(i)) {
                        return false;
                    }
                }
            }
        }
        true
    }

    // ------------------------------------------------------------------ from-scratch evaluator

    /// Value of node `h` obtained by evaluating its defining expression from scratch on the
    /// given variable values. None = invalid / not evaluable.
    pub fn scratch(&self, h: Hid, depth: u32) -> Option<MV> {
        if depth > 400 {
            return None;
        }
        let n = &self.nodes[h];
        if n.invalid {
            return None;
        }
        let i = |x: Hid| self.scratch(x, depth + 1).map(|v| v.i());
        Some(match &n.rk {
            RK::Var { vid, .. } => self.vars[*vid].value,
            RK::Const(v) => *v,
            RK::Map { src, f } => MV::I(f.ap(i(*src)?)),
            RK::MapP { src, f } => match self.scratch(*src, depth + 1)? {
                MV::P(a, b) => MV::I(f.ap(a, b)),
                _ => return None,
            },
            RK::MapIP { src } => {
                let x = i(*src)?;
                MV::P(x.rem_euclid(3), x.div_euclid(2))
            }
            RK::MapN { srcs, f } => {
                let xs: Option<Vec<i64>> = srcs.iter().map(|s| i(*s)).collect();
                MV::I(f.reduce(&xs?))
            }
            RK::Fold { srcs, init, f } => {
                let xs: Option<Vec<i64>> = srcs.iter().map(|s| i(*s)).collect();
                MV::I(f.fold(*init, &xs?))
            }
            RK::Zip { a, b } => MV::P(i(*a)?, i(*b)?),
            RK::MapRef { src, proj } => match self.scratch(*src, depth + 1)? {
                MV::P(a, b) => MV::I(if *proj == 0 { a } else { b }),
                MV::I(x) if *proj == 2 => MV::I(x),
                _ => return None,
            },
            RK::ZipQ { a, b } => match self.scratch(*a, depth + 1)? {
                MV::P(x, y) => MV::Q(x, y, i(*b)?),
                _ => return None,
            },
            RK::MapRefQ { src } => match self.scratch(*src, depth + 1)? {
                MV::Q(a, b, _) => MV::P(a, b),
                _ => return None,
            },
            RK::MapWithOld { src, f } => MV::I(f.ap(i(*src)?)),
            RK::DependOn { a, b } => {
                self.scratch(*b, depth + 1)?;
                MV::I(i(*a)?)
            }
            RK::Bind { lhs, outers, memos, body } => {
                let l = i(*lhs)?;
                let k = body.alts.len() as i64;
                let cx = (outers.as_slice(), memos.as_slice());
                MV::I(self.scratch_body(&body.alts[l.rem_euclid(k) as usize], l, cx, depth + 1)?)
            }
            RK::BConst(v) => MV::I(*v),
            RK::BVar { v } => MV::I(*v),
            RK::BMap { src, f, l } => MV::I(f.ap(*l, i(*src)?)),
            RK::BMap2 { a, b, f } => MV::I(f.ap(i(*a)?, i(*b)?)),
            RK::BFold { srcs, f } => {
                let xs: Option<Vec<i64>> = srcs.iter().map(|s| i(*s)).collect();
                MV::I(f.fold(0, &xs?))
            }
            RK::Memo { key, src, .. } | RK::BMemo { key, src } => MV::I(norm(i(*src)? + *key)),
        })
    }

    fn scratch_body(&self, e: &BodyExpr, l: i64, cx: (&[Hid], &[usize]), depth: u32) -> Option<i64> {
        let (outers, memos) = cx;
        if depth > 400 {
            return None;
        }
        Some(match e {
            BodyExpr::Outer(k) => {
                if outers.is_empty() {
                    norm(*k as i64 + l)
                } else {
                    self.scratch(outers[*k % outers.len()], depth + 1)?.i()
                }
            }
            BodyExpr::Const(c) => norm(*c + l),
            BodyExpr::NewVar { v, .. } => norm(*v + l),
            BodyExpr::Ref(e, proj) => {
                let x = self.scratch_body(e, l, cx, depth + 1)?;
                if *proj == 2 {
                    x
                } else if *proj % 2 == 0 {
                    x.rem_euclid(3)
                } else {
                    x.div_euclid(2)
                }
            }
            BodyExpr::WithOld(e, f) => f.ap(self.scratch_body(e, l, cx, depth + 1)?),
            BodyExpr::Map(e, f) | BodyExpr::MapVia(e, f, _) => f.ap(l, self.scratch_body(e, l, cx, depth + 1)?),
            BodyExpr::Map2(a, b, f) => f.ap(
                self.scratch_body(a, l, cx, depth + 1)?,
                self.scratch_body(b, l, cx, depth + 1)?,
            ),
            BodyExpr::Fold(es, f) => {
                let xs: Option<Vec<i64>> = es.iter().take(4).map(|e| self.scratch_body(e, l, cx, depth + 1)).collect();
                let xs = xs?;
                if xs.is_empty() {
                    norm(l)
                } else {
                    f.fold(0, &xs)
                }
            }
            BodyExpr::Bind(e, body) => {
                let l2 = self.scratch_body(e, l, cx, depth + 1)?;
                if body.alts.is_empty() {
                    return Some(l2);
                }
                let k = body.alts.len() as i64;
                self.scratch_body(&body.alts[l2.rem_euclid(k) as usize], l2, cx, depth + 1)?
            }
            BodyExpr::LocalMemo { k } => {
                if outers.is_empty() {
                    norm(*k + l)
                } else {
                    norm(self.scratch(outers[0], depth + 1)?.i() + (*k + l).rem_euclid(3))
                }
            }
            BodyExpr::Memo { m, k } => {
                // memoised function: src.map(|x| x + key), key = (k + l) mod 3
                let key = (*k + l).rem_euclid(3);
                if memos.is_empty() {
                    norm(*k + l)
                } else {
                    let src = self.memo_srcs[memos[*m % memos.len()]];
                    norm(self.scratch(src, depth + 1)?.i() + key)
                }
            }
        })
    }
}

impl Model {
    /// Nodes kept alive by the driver's handles along the documented ownership edges:
    /// node -> inputs; bind -> input, current right-hand side, the nodes and memoised functions
    /// its closure captured; observer handle -> node; var handle -> watch node; memoised
    /// function -> the node its closure captured. (Parent pointers, observer registrations on
    /// nodes, scope lists and memo tables are weak.)
    pub fn reachable(&self) -> BTreeSet<Hid> {
        let mut roots: Vec<Hid> = vec![];
        for (h, n) in self.nodes.iter().enumerate() {
            if n.held {
                roots.push(h);
            }
        }
        for v in &self.vars {
            if v.handle {
                roots.push(v.hid);
            }
        }
        for o in &self.obs {
            if o.clones.iter().any(|c| *c) {
                roots.push(o.hid);
            }
        }
        for (m, held) in self.memo_held.iter().enumerate() {
            if *held {
                roots.push(self.memo_srcs[m]);
                if let Some(Some(t)) = self.memo_calls_memo.get(m) {
                    roots.push(self.memo_srcs[*t]);
                }
            }
        }
        let mut seen = BTreeSet::new();
        let mut stack = roots;
        while let Some(h) = stack.pop() {
            if !seen.insert(h) {
                continue;
            }
            let n = &self.nodes[h];
            for c in crate::world::rk_inputs(&n.rk) {
                stack.push(c);
            }
            if let RK::Bind { memos, .. } = &n.rk {
                for m in memos {
                    stack.push(self.memo_srcs[*m]);
                }
                if let Some(r) = n.rhs {
                    stack.push(r);
                }
            }
        }
        seen
    }

    /// C12: after a stabilise, a node that no handle could reach when the stabilise started
    /// (and none can reach now) must have been released.
    pub(crate) fn on_alive(&mut self, at: usize, hids: &[Hid]) {
        if self.poisoned || !self.state_alive {
            return;
        }
        let now = self.reachable();
        self.leak_checks += 1;
        for h in hids {
            if *h < self.nodes_at_round_start && !self.reach_start.contains(h) && !now.contains(h) {
                self.violations.push(Violation {
                    property: "C12",
                    rule: "node-not-released",
                    at,
                    detail: format!("node {} ({}) is still alive after a stabilise although no handle has been able to reach it since before that stabilise started", h, crate::model_step::kind_name(&self.nodes[*h].rk)),
                });
            }
        }
    }
}

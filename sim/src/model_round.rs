//! End-of-propagation analysis, notifications and reads of the reference model.

use crate::model::*;
use crate::plan::*;
use crate::trace::*;

macro_rules! viol {
    ($self:ident, $at:expr, $prop:expr, $rule:expr, $($arg:tt)*) => {
        $self.violations.push(Violation { property: $prop, rule: $rule, at: $at, detail: format!($($arg)*) })
    };
}

impl Model {
    pub(crate) fn finish_propagation(&mut self, at: usize) {
        if self.phase != Phase::Propagating {
            return;
        }
        self.finalize_fold(at);
        let round = self.round;
        // cone "as it stands when stabilise returns"; also spreads invalidity to needed dependants
        self.refresh_necessity();

        // ---- C05: every recompute was of a node needed at the start or at the end
        let runs = self.run_order.clone();
        for (h, pos) in runs.iter() {
            // the property speaks of node *functions*: only nodes that carry a user function count
            if !self.cone_start.contains(h) && !self.necessary.contains(h) && crate::model_step::instrumented(&self.nodes[*h].rk) {
                if self.transient.contains(h) {
                    viol!(self, *pos, "C05", "ran-outside-cones-transient", "node {} ({}) was computed although no live observer needs it at the start or at the end of this stabilise (it was needed only in between)", h, crate::model_step::kind_name(&self.nodes[*h].rk));
                } else {
                    viol!(self, *pos, "C05", "ran-outside-cones", "node {} ({}) was computed although no live observer needs it", h, crate::model_step::kind_name(&self.nodes[*h].rk));
                }
            }
            if self.cone_start.contains(h) && !self.necessary.contains(h) {
                self.cov.may_run_only += 1;
            }
        }
        // ---- C03: nothing built by a superseded run of a bind ran in the stabilise that superseded it
        for (h, pos) in runs.iter() {
            if let Some((b, g)) = self.nodes[*h].scope {
                // (relaxation R4: only while the bind was being maintained, i.e. needed when this
                // stabilise started; a bind that was unnecessary and is re-connected in this round
                // cannot have invalidated its old nodes before the scheduler reached them)
                // (and not in a round in which the bind itself was dropped by everything that needed
                // it before it was picked up again: while it is unnecessary nothing maintains its nodes)
                if self.nodes[*h].invalid_since == Some(round) && self.nodes[b].gen.map_or(false, |cg| cg > g) && self.nodes[b].lc_last_run == Some(round) && self.cone_start.contains(&b) && !self.lost_necessity.contains(&b) {
                    viol!(self, *pos, "C03", "superseded-node-ran", "node {} built by run {} of bind {} was computed in the stabilise in which the bind's input changed", h, g, b);
                }
            }
        }
        // ---- C02: no closure saw a transient combination of an old captured bind input and new inputs
        for (h, pos) in runs.iter() {
            if let (RK::BMap { l, .. }, Some((b, g))) = (&self.nodes[*h].rk, self.nodes[*h].scope) {
                // only when the bind re-ran in this very round: under a non-equality cutoff on the bind's
                // input a maintained closure legitimately keeps an older captured value
                if self.cone_start.contains(&b) && !self.lost_necessity.contains(&b) && !self.nodes[b].invalid && self.nodes[b].lc_last_run == Some(round) && self.nodes[b].gen.map_or(false, |cg| cg > g) {
                    if let RK::Bind { lhs, .. } = &self.nodes[b].rk {
                        let lv = self.val(*lhs);
                        if lv.is_some() && lv != Some(MV::I(*l)) {
                            viol!(self, *pos, "C02", "closure-saw-transient-combination", "node {} ran with the value {} captured from bind {}'s input although that input is {:?} in this stabilise", h, l, b, lv);
                        }
                    }
                }
            }
        }
        // ---- C02: inputs were final when a node ran
        for (h, pos) in runs.iter() {
            if self.nodes[*h].invalid {
                continue;
            }
            for c in self.children(*h) {
                let cn = &self.nodes[c];
                if cn.last_run == Some(round) && cn.runs > 0 && cn.last_run_pos > *pos {
                    viol!(self, cn.last_run_pos, "C02", "input-ran-after-dependant", "node {} was computed before its input {} was (re)computed in the same stabilise", h, c);
                }
            }
            if let RK::Bind { .. } = self.nodes[*h].rk {
                // main must not run before its own closure in the same round
            }
        }
        // ---- C06 / C08: nothing needed is left stale
        let needed: Vec<Hid> = self.necessary.iter().copied().collect();
        for h in needed.iter() {
            let n = &self.nodes[*h];
            if n.invalid {
                continue;
            }
            if n.last_run.is_none() {
                viol!(self, at, "C06", "missing-run", "needed node {} ({}) was never computed", h, crate::model_step::kind_name(&n.rk));
                continue;
            }
            match &n.rk {
                RK::Var { vid, .. } => {
                    let v = &self.vars[*vid];
                    if v.set_round <= round && Some(v.set_round) > n.last_run {
                        viol!(self, at, "C08", "write-not-propagated", "variable {} was written before this stabilise but its node was not recomputed", vid);
                        let passes = match n.value {
                            Some(old) => !n.cutoff.cuts(old, v.value),
                            None => true,
                        };
                        if passes {
                            viol!(self, at, "C06", "change-lost", "variable {} holds a new value that its cutoff does not suppress, but the change was not propagated in this stabilise", vid);
                        }
                    }
                }
                RK::Bind { lhs, .. } => {
                    let lhs_changed = self.nodes[*lhs].last_changed;
                    if n.lc_last_run.is_none() || lhs_changed > n.lc_last_run {
                        viol!(self, at, "C06", "missing-run", "closure of needed bind {} did not re-run although its input changed", h);
                    }
                    if n.lc_last_run > n.last_run || n.rhs.map_or(false, |r| self.nodes[r].last_changed > n.last_run) {
                        viol!(self, at, "C06", "missing-run", "result of needed bind {} was not refreshed although its right-hand side changed", h);
                    }
                }
                _ => {
                    for c in self.children(*h) {
                        if self.nodes[c].last_changed > n.last_run {
                            viol!(self, at, "C06", "missing-run", "needed node {} was not recomputed although its input {} changed", h, c);
                        }
                    }
                }
            }
        }
        // ---- C01: observers equal a from-scratch evaluation (var values: those at call start)
        let observed: Vec<Hid> = self.obs.iter().filter(|o| o.state == OState::InUse).map(|o| o.hid).collect();
        for h in observed {
            if self.nodes[h].invalid {
                continue;
            }
            let cached = self.val(h);
            if cached.is_none() {
                continue; // reported as missing-run above
            }
            if self.any_noneq_cutoff {
                self.cov.c01_skipped_noneq_cutoff += 1;
                continue;
            }
            if let Some(s) = self.scratch(h, 0) {
                self.cov.c01_value_checks += 1;
                if Some(s) != cached {
                    viol!(self, at, "C01", "stale-value", "observed node {} ({}) holds {:?} after stabilise but evaluating its definition from scratch gives {:?}", h, crate::model_step::kind_name(&self.nodes[h].rk), cached, s);
                    // the same mismatch, read as C07: this observer does not reflect the variable
                    // assignment the others reflect
                    viol!(self, at, "C07", "observers-not-one-assignment", "observed node {} ({}) shows {:?} at the end of the stabilise; under the variable assignment current when stabilise was called its value is {:?}", h, crate::model_step::kind_name(&self.nodes[h].rk), cached, s);
                }
            }
        }
        // ---- deferred writes become the variables' values now
        for v in self.vars.iter_mut() {
            if let Some(p) = v.pending.take() {
                v.value = p;
                v.set_round = round + 1;
            }
        }
        self.phase = Phase::Handlers;
        self.dropped_var_since_round = false;
        self.dropped_handle_since_round_prev = self.dropped_handle_since_round;
        self.dropped_handle_since_round = false;
        // ---- C09: expected notifications of this round
        for (sid, s) in self.subs.iter().enumerate() {
            if !s.live || s.eligible_from > round {
                continue;
            }
            let o = &self.obs[s.oid];
            if o.state != OState::InUse {
                continue;
            }
            let n = &self.nodes[o.hid];
            if n.invalid {
                if s.prev != Prev::Invalidated {
                    self.expected_notifs.insert(sid, Upd::Invalidated);
                }
            } else if let Some(v) = self.val(o.hid) {
                if s.prev == Prev::Never {
                    self.expected_notifs.insert(sid, Upd::Init(v));
                } else if n.last_changed == Some(round) {
                    self.expected_notifs.insert(sid, Upd::Changed(v));
                } else if n.maybe_changed == Some(round) {
                    self.expected_notifs.insert(sid, Upd::Changed(v));
                    self.expected_optional.insert(sid);
                }
            }
        }
        // shape hash for coverage: which kinds ran, in which order
        for (h, _) in runs.iter() {
            self.shape.str(crate::model_step::kind_name(&self.nodes[*h].rk));
        }
        self.shape.u64(0xfe);
    }

    pub(crate) fn on_round_end(&mut self, at: usize) {
        if self.phase == Phase::Propagating {
            self.finish_propagation(at);
        }
        let missing: Vec<(usize, Upd)> = self
            .expected_notifs
            .iter()
            .filter(|(sid, _)| {
                let s = &self.subs[**sid];
                !s.delivered_this_round && s.live && self.obs[s.oid].state == OState::InUse && !self.expected_optional.contains(*sid)
            })
            .map(|(a, b)| (*a, *b))
            .collect();
        for (sid, upd) in missing {
            viol!(self, at, "C09", "missing-notification", "subscription {} did not receive {:?} at the end of this stabilise", sid, upd);
            // C10: subscribe / unsubscribe / disallow / drop on one observer never affects another
            // observer of the same node
            let oid = self.subs[sid].oid;
            let hid = self.obs[oid].hid;
            let others: Vec<usize> = self.lifecycle_ops.get(&hid).map(|s| s.iter().copied().filter(|o| *o != oid).collect()).unwrap_or_default();
            if !others.is_empty() {
                viol!(self, at, "C10", "other-observer-affected", "subscription {} of observer {} lost {:?} after lifecycle operations on other observers {:?} of the same node", sid, oid, upd, others);
            }
        }
        self.phase = Phase::Outside;
        self.transient.clear();
        self.lost_necessity.clear();
        for o in self.obs.iter_mut() {
            o.last_seen = None;
        }
    }

    pub(crate) fn on_notify(&mut self, at: usize, sid: usize, upd: Upd, read: RR) {
        if self.phase == Phase::Propagating {
            self.finish_propagation(at);
        }
        self.cov.notifications += 1;
        if self.phase != Phase::Handlers {
            viol!(self, at, "C09", "notification-outside-stabilise", "subscription {} was called outside the handler phase", sid);
            return;
        }
        if sid >= self.subs.len() {
            // the handler of a subscription whose creation has not been logged yet cannot run
            viol!(self, at, "C09", "unexpected-notification", "unknown subscription {} was called", sid);
            return;
        }
        let s = self.subs[sid].clone();
        let ostate = self.obs[s.oid].state;
        if !s.live || ostate != OState::InUse {
            viol!(self, at, "C09", "notification-after-end", "subscription {} received {:?} although it was unsubscribed or its observer is {:?}", sid, upd, ostate);
            return;
        }
        if s.delivered_this_round {
            viol!(self, at, "C09", "duplicate-notification", "subscription {} was called twice in one stabilise ({:?})", sid, upd);
            return;
        }
        match self.expected_notifs.get(&sid) {
            Some(exp) if *exp == upd => {}
            Some(exp) => {
                viol!(self, at, "C09", "wrong-notification", "subscription {} received {:?}, expected {:?}", sid, upd, exp);
            }
            None => {
                let rule = match (s.prev, upd) {
                    (Prev::Init | Prev::Changed, Upd::Changed(_)) => "spurious-changed",
                    (Prev::Invalidated, _) => "after-invalidated",
                    (_, Upd::Init(_)) => "repeated-initialised",
                    _ => "unexpected-notification",
                };
                viol!(self, at, "C09", rule, "subscription {} received {:?} but the observed node did not change in this stabilise (previously told: {:?})", sid, upd, s.prev);
            }
        }
        // the delivered value is what the observer returns at that moment
        let want: RR = match upd {
            Upd::Init(v) | Upd::Changed(v) => Ok(v),
            _ => Err(ObsErr::ObservingInvalid),
        };
        if read != want {
            viol!(self, at, "C09", "delivered-value-differs", "subscription {} was handed {:?} while its observer returns {:?}", sid, upd, read);
        }
        let s = &mut self.subs[sid];
        s.delivered_this_round = true;
        s.prev = match upd {
            Upd::Init(_) => Prev::Init,
            Upd::Changed(_) => Prev::Changed,
            _ => Prev::Invalidated,
        };
    }

    pub fn expected_read(&self, oid: usize) -> RR {
        let o = &self.obs[oid];
        if !self.state_alive {
            return Err(ObsErr::ObservingInvalid);
        }
        match o.state {
            OState::Created => Err(ObsErr::NeverStabilised),
            OState::Disallowed | OState::Unlinked => Err(ObsErr::Disallowed),
            OState::InUse => {
                let n = &self.nodes[o.hid];
                if n.invalid {
                    Err(ObsErr::ObservingInvalid)
                } else {
                    self.val(o.hid).ok_or(ObsErr::ObservingInvalid)
                }
            }
        }
    }

    pub(crate) fn on_read(&mut self, at: usize, oid: usize, res: RR, _in_handler: bool) {
        self.cov.reads_checked += 1;
        let exp = self.expected_read(oid);
        let before = self.obs[oid].last_seen;
        if self.phase == Phase::Outside {
            self.obs[oid].last_seen = Some(res);
        }
        if res == exp {
            return;
        }
        let hid = self.obs[oid].hid;
        if before == Some(exp) && self.phase == Phase::Outside {
            viol!(self, at, "C07", "moved-between-stabilises", "observer {} (node {}) returned {:?} after returning {:?} earlier with no stabilise in between", oid, hid, res, exp);
            return;
        }
        match (exp, res) {
            (Err(ObsErr::NeverStabilised), _) => {
                viol!(self, at, "C07", "new-observer-readable", "observer {} has not been through a stabilise but returned {:?}", oid, res);
                viol!(self, at, "C10", "lifecycle-read", "observer {} is in state Created but returned {:?}", oid, res);
            }
            (Err(ObsErr::Disallowed), _) => {
                viol!(self, at, "C10", "lifecycle-read", "observer {} is {:?} but returned {:?}", oid, self.obs[oid].state, res);
            }
            (Err(ObsErr::ObservingInvalid), Ok(_)) => {
                if matches!(self.nodes[hid].rk, RK::BMemo { .. }) {
                    viol!(self, at, "C20", "local-memo-node-outlived-its-scope", "node {} was made by a constructor memoised inside a bind closure, the bind re-ran, yet its observer still returns {:?}", hid, res);
                }
                viol!(self, at, "C03", "invalid-node-readable", "observer {} on invalid node {} returned {:?}", oid, hid, res);
            }
            (Ok(_), Err(ObsErr::ObservingInvalid)) => {
                viol!(self, at, "C03", "spurious-invalid", "observer {} on valid node {} returned ObservingInvalid, expected {:?}", oid, hid, exp);
            }
            (Ok(_), Err(e)) => {
                viol!(self, at, "C10", "lifecycle-read", "observer {} is in use but returned {:?}", oid, e);
            }
            (Ok(_), Ok(_)) => {
                if self.phase == Phase::Handlers {
                    viol!(self, at, "C07", "handler-read", "observer {} read from an update handler returned {:?}, the value of this stabilise is {:?}", oid, res, exp);
                } else {
                    viol!(self, at, "C01", "observer-not-last-result", "observer {} (node {}) returned {:?} but the node's function last produced {:?}", oid, hid, res, exp);
                    viol!(self, at, "C07", "not-the-stabilised-snapshot", "observer {} (node {}) returned {:?}; the value for the variable assignment current when stabilise was called is {:?}", oid, hid, res, exp);
                }
            }
            _ => {
                viol!(self, at, "C10", "lifecycle-read", "observer {} returned {:?}, expected {:?}", oid, res, exp);
            }
        }
    }
}

//! Event processing of the reference model: bookkeeping, legality of every engine recompute,
//! end-of-propagation completeness, notifications, reads.

use crate::model::*;
use crate::plan::*;
use crate::trace::*;

macro_rules! viol {
    ($self:ident, $at:expr, $prop:expr, $rule:expr, $($arg:tt)*) => {
        $self.violations.push(Violation { property: $prop, rule: $rule, at: $at, detail: format!($($arg)*) })
    };
}

pub fn instrumented(rk: &RK) -> bool {
    match rk {
        RK::Map { .. }
        | RK::MapP { .. }
        | RK::MapIP { .. }
        | RK::MapN { .. }
        | RK::MapWithOld { .. }
        | RK::BMap { .. }
        | RK::BMap2 { .. }
        | RK::BMemo { .. }
        | RK::Memo { .. } => true,
        RK::Fold { srcs, .. } | RK::BFold { srcs, .. } => !srcs.is_empty(),
        _ => false,
    }
}

impl Model {
    /// the engine's stabilisation number right now
    fn num(&self) -> u32 {
        match self.phase {
            Phase::Propagating => self.round,
            Phase::Handlers => self.round + 1,
            Phase::Outside => self.rounds_started,
        }
    }

    pub fn step(&mut self, at: usize, ev: &Ev) {
        if self.poisoned {
            return;
        }
        if let Ev::Panic { .. } = ev {
            // whatever was in flight is abandoned
            self.current_fold = None;
        }
        if !matches!(ev, Ev::FoldStep { .. } | Ev::Engine(_)) {
            self.finalize_fold(at);
        }
        match ev {
            Ev::Created(c) => self.on_created(c),
            Ev::Act { ctx, act } => self.on_act(at, *ctx, act),
            Ev::RoundStart { .. } => self.on_round_start(at),
            Ev::RoundEnd { .. } => self.on_round_end(at),
            Ev::Invoke { hid, args, old, result } => self.on_invoke(at, *hid, args, *old, *result),
            Ev::FoldStep { hid, acc, x, result } => {
                if self.current_fold != Some(*hid) {
                    self.finalize_fold(at);
                    if !self.nodes[*hid].awaiting_invoke {
                        self.on_run_start(at, *hid);
                    }
                    self.current_fold = Some(*hid);
                }
                self.cov.invocations += 1;
                self.nodes[*hid].fold_steps.push((*acc, *x, *result));
            }
            Ev::BindRun { bind, gen, l, rhs } => self.on_bind_run(at, *bind, *gen, *l, *rhs),
            Ev::Cutoff { hid, old, new, res } => self.on_cutoff(at, *hid, *old, *new, *res),
            Ev::Notify { sid, upd, read } => self.on_notify(at, *sid, *upd, *read),
            Ev::NodeNotify { .. } => {
                if self.phase == Phase::Propagating {
                    self.finish_propagation(at);
                }
            }
            Ev::Engine(e) => self.on_engine(at, *e),
            Ev::Read { oid, res, .. } => self.on_read(at, *oid, *res, false),
            Ev::VarGet { vid, val } => {
                if self.phase == Phase::Outside && self.vars[*vid].value != *val {
                    viol!(self, at, "C08", "var-get", "Var::get of var {} returned {:?}, logical value is {:?}", vid, val, self.vars[*vid].value);
                }
            }
            Ev::Alive { hids } => self.on_alive(at, hids),
            Ev::Audit { lines, .. } => {
                self.cov.audits += 1;
                for l in lines {
                    viol!(self, at, "C11", "audit", "{}", l);
                }
            }
            Ev::Panic { msg, injected, ctx } => {
                if !*injected {
                    viol!(self, at, "C04", "panic", "unexpected panic in {:?}: {}", ctx, msg);
                    // the same panic, read as the property whose call or promise it broke
                    if msg.contains("[inside subscribe]") || msg.contains("[inside unsubscribe]") {
                        viol!(self, at, "C10", "lifecycle-call-panicked", "a subscribe / unsubscribe call panicked instead of returning its result: {}", msg);
                    }
                    if self.phase != Phase::Outside {
                        if self.vars.iter().any(|v| v.pending.is_some()) {
                            viol!(self, at, "C08", "stabilise-with-deferred-write-panicked", "stabilise panicked while a write made from inside a node function was waiting to be applied: {}", msg);
                        }
                        if self.dropped_handle_since_round || (self.phase == Phase::Handlers && self.dropped_handle_since_round_prev) {
                            viol!(self, at, "C12", "stabilise-after-drop-panicked", "the stabilise that followed dropping or disallowing handles panicked: {}", msg);
                        }
                    }
                }
                self.poisoned = true;
            }
            Ev::Note(_) => {}
        }
    }

    fn on_created(&mut self, c: &Created) {
        debug_assert_eq!(c.hid, self.nodes.len());
        if let RK::Var { vid, init } = &c.rk {
            debug_assert_eq!(*vid, self.vars.len());
            self.vars.push(MVar { hid: c.hid, value: *init, pending: None, set_round: self.num(), handle: true });
        }
        self.by_engine.insert(c.engine_id, c.hid);
        self.nodes.push(MNode {
            rk: c.rk.clone(),
            pair: c.pair,
            scope: c.scope,
            held: c.held,
            engine_id: c.engine_id,
            cutoff: CutoffSpec::Default,
            cutoff_set: false,
            had_noneq_cutoff: false,
            maybe_history: vec![],
            value: None,
            last_run: None,
            last_changed: None,
            invalid: false,
            invalid_since: None,
            engine_invalid: false,
            prev_value: None,
            maybe_changed: None,
            gen: None,
            cur_l: None,
            rhs: None,
            lc_last_run: None,
            runs: 0,
            last_run_pos: 0,
            fold_steps: vec![],
            awaiting_invoke: false,
            node_handlers: 0,
        });
    }

    // ------------------------------------------------------------------ actions

    fn disallow(&mut self, oid: usize) {
        let hid = self.obs[oid].hid;
        self.lifecycle_ops.entry(hid).or_default().insert(oid);
        match self.obs[oid].state {
            OState::Created => {
                self.obs[oid].state = OState::Unlinked;
                for s in self.subs.iter_mut().filter(|s| s.oid == oid) {
                    s.live = false;
                }
            }
            OState::InUse => self.obs[oid].state = OState::Disallowed,
            _ => {}
        }
    }

    fn on_act(&mut self, at: usize, ctx: Ctx, act: &Act) {
        match act {
            Act::Write { vid, op, ret, get_after } => {
                let deferred = ctx.in_propagation();
                let v = &self.vars[*vid];
                let logical = v.pending.unwrap_or(v.value);
                let new = op.apply(logical);
                if op.returns_old() && *ret != Some(logical) {
                    viol!(self, at, "C08", "replace-ret", "replace on var {} returned {:?}, logical value was {:?}", vid, ret, logical);
                }
                if deferred {
                    self.cov.deferred_writes += 1;
                    self.vars[*vid].pending = Some(new);
                } else {
                    if ctx.in_handler() {
                        self.cov.handler_writes += 1;
                    }
                    if let Some(g) = get_after {
                        if *g != new {
                            viol!(self, at, "C08", "write-get", "after {:?} on var {} get() returned {:?}, expected {:?}", op, vid, g, new);
                        }
                    }
                    let num = self.num();
                    let hid = self.vars[*vid].hid;
                    let v = &mut self.vars[*vid];
                    v.value = new;
                    v.set_round = v.set_round.max(num);
                    if !self.necessary.contains(&hid) {
                        self.unobserved_writes.insert(hid);
                        self.cov.disconnect_writes += 1;
                    }
                }
            }
            Act::GetVar { vid, val } => {
                if !ctx.in_propagation() && self.vars[*vid].value != *val {
                    viol!(self, at, "C08", "var-get", "Var::get of var {} returned {:?}, logical value is {:?}", vid, val, self.vars[*vid].value);
                }
            }
            Act::ReadObs { oid, res, .. } => {
                if ctx.in_propagation() {
                    if *res != Err(ObsErr::CurrentlyStabilising) {
                        viol!(self, at, "C07", "read-in-propagation", "observer {} read from {:?} returned {:?} instead of CurrentlyStabilising", oid, ctx, res);
                        if res.is_ok() {
                            // a side effect of a node function was shown a value in mid-propagation
                            viol!(self, at, "C02", "value-shown-during-propagation", "observer {} read from {:?} handed out {:?} while the stabilise was still propagating", oid, ctx, res);
                        }
                    }
                    self.cov.reads_checked += 1;
                } else {
                    self.on_read(at, *oid, *res, true);
                }
            }
            Act::Observe { oid, hid } => {
                debug_assert_eq!(*oid, self.obs.len());
                self.obs.push(MObs { hid: *hid, state: OState::Created, clones: vec![true], last_seen: None });
                self.new_obs_since_round = true;
                if self.was_necessary_ever.contains(hid) && !self.necessary.contains(hid) {
                    self.cov.reobserved += 1;
                }
            }
            Act::CloneObs { oid, .. } => self.obs[*oid].clones.push(true),
            Act::DropObs { oid, clone } => {
                self.dropped_handle_since_round = true;
                self.obs[*oid].clones[*clone] = false;
                if !self.obs[*oid].clones.iter().any(|c| *c) {
                    self.disallow(*oid);
                }
            }
            Act::Disallow { oid } => {
                self.dropped_handle_since_round = true;
                self.disallow(*oid)
            }
            Act::Subscribe { oid, sid, err } => {
                self.cov.lifecycle_errors_checked += 1;
                let hid = self.obs[*oid].hid;
                self.lifecycle_ops.entry(hid).or_default().insert(*oid);
                let dead = matches!(self.obs[*oid].state, OState::Disallowed | OState::Unlinked);
                match (dead, sid, err) {
                    (true, None, Some(ObsErr::Disallowed)) => {}
                    (false, Some(s), None) => {
                        debug_assert_eq!(*s, self.subs.len());
                        let eligible_from = match self.phase {
                            Phase::Handlers => self.round + 1,
                            Phase::Propagating => self.round,
                            Phase::Outside => self.rounds_started,
                        };
                        self.subs.push(MSub { oid: *oid, prev: Prev::Never, live: true, eligible_from, delivered_this_round: false });
                    }
                    _ => {
                        viol!(self, at, "C10", "subscribe-result", "subscribe on observer {} in state {:?} returned sid={:?} err={:?}", oid, self.obs[*oid].state, sid, err);
                        if sid.is_some() {
                            self.subs.push(MSub { oid: *oid, prev: Prev::Never, live: false, eligible_from: u32::MAX, delivered_this_round: false });
                        }
                    }
                }
            }
            Act::Unsub { via_oid, sid, res } => {
                self.cov.lifecycle_errors_checked += 1;
                let hid = self.obs[*via_oid].hid;
                self.lifecycle_ops.entry(hid).or_default().insert(*via_oid);
                let owner = self.subs[*sid].oid;
                let expect: Result<(), ObsErr> = if owner != *via_oid { Err(ObsErr::Mismatch) } else { Ok(()) };
                if *res != expect {
                    viol!(self, at, "C10", "unsubscribe-result", "unsubscribe of subscription {} (observer {}) via observer {} returned {:?}, expected {:?}", sid, owner, via_oid, res, expect);
                }
                if owner == *via_oid && matches!(self.obs[owner].state, OState::Created | OState::InUse) {
                    self.subs[*sid].live = false;
                }
            }
            Act::StateUnsub { sid } => {
                let owner = self.subs[*sid].oid;
                if self.obs[owner].state == OState::InUse {
                    self.subs[*sid].live = false;
                }
            }
            Act::OnUpdate { hid, .. } => self.nodes[*hid].node_handlers += 1,
            Act::SetCutoff { hid, c } => {
                self.nodes[*hid].cutoff = *c;
                self.nodes[*hid].cutoff_set = true;
                if !c.only_suppresses_equal() {
                    self.nodes[*hid].had_noneq_cutoff = true;
                }
                if !c.only_suppresses_equal() {
                    self.any_noneq_cutoff = true;
                }
            }
            Act::DropNode { hid } => {
                self.nodes[*hid].held = false;
                self.dropped_handle_since_round = true;
            }
            Act::DropVar { vid } => {
                self.vars[*vid].handle = false;
                self.dropped_var_since_round = true;
                self.dropped_handle_since_round = true;
            }
            Act::Memoize { m, src } => {
                debug_assert_eq!(*m, self.memo_srcs.len());
                self.memo_srcs.push(*src);
                self.memo_held.push(true);
                // memoised inside a bind closure: its constructor calls the first memoised function
                // that closure captured
                let inner = match ctx {
                    Ctx::BindFn(b) => match &self.nodes[b].rk {
                        RK::Bind { memos, .. } => memos.first().copied(),
                        _ => None,
                    },
                    _ => None,
                };
                self.memo_calls_memo.push(inner);
            }
            Act::MemoCall { m, key, hid, fresh, prev_alive } => {
                self.on_memo_call(at, *m, *key, *hid, *fresh, *prev_alive);
                // a top-level call hands the node to the driver, which keeps it as a handle
                if ctx == Ctx::Top && *hid != usize::MAX {
                    self.nodes[*hid].held = true;
                }
            }
            Act::DropMemo { m } => {
                self.memo_held[*m] = false;
                self.dropped_handle_since_round = true;
            }
            Act::IsStable { res } => self.on_is_stable(at, ctx, *res),
            Act::SetMaxHeight { .. } => {}
            Act::DropState => self.state_alive = false,
            Act::Skipped(_) => {}
        }
    }

    fn on_memo_call(&mut self, at: usize, m: usize, key: i64, hid: Hid, fresh: bool, prev_alive: Option<Hid>) {
        // C20: while the node previously returned for `key` is still referenced anywhere (its
        // weak handle still upgrades) the same node comes back and the underlying function is
        // not called.
        self.cov.memo_calls += 1;
        if let Some(prev) = prev_alive {
            self.cov.memo_hits += 1;
            if fresh || hid != prev {
                viol!(self, at, "C20", "memo-identity", "memo {} key {}: node {} is still referenced but the call returned node {} (underlying function called: {})", m, key, prev, hid as i64, fresh);
            }
        } else {
            if !fresh {
                viol!(self, at, "C20", "memo-stale-hit", "memo {} key {}: no node for this key is alive, yet the underlying function was not called", m, key);
            }
            if self.memo_live.contains_key(&(m, key)) {
                self.cov.memo_recreated += 1;
            }
        }
        if hid == usize::MAX {
            viol!(self, at, "C20", "memo-foreign", "memo {} key {} returned a node the underlying function never made for this key", m, key);
            return;
        }
        self.memo_live.insert((m, key), hid);
        // (a function memoised inside a bind run rightly keeps returning that run's nodes after the
        // bind re-ran: they are invalid then)
        if self.nodes[hid].invalid && !matches!(self.nodes[hid].rk, RK::BMemo { .. }) {
            viol!(self, at, "C20", "memo-invalid", "memo {} key {} returned node {} which is invalid", m, key, hid);
        }
    }

    fn on_is_stable(&mut self, at: usize, ctx: Ctx, res: bool) {
        if ctx.in_propagation() {
            return;
        }
        let stale_needed_var = self.vars.iter().any(|v| {
            self.necessary.contains(&v.hid) && !self.nodes[v.hid].invalid && Some(v.set_round) > self.nodes[v.hid].last_run.map(|x| x)
                && self.nodes[v.hid].last_run.map_or(true, |lr| v.set_round > lr)
        });
        if stale_needed_var && res {
            viol!(self, at, "C08", "is-stable", "is_stable() returned true although an observed variable has an unpropagated write");
        }
        let pending_obs = self.new_obs_since_round || self.obs.iter().any(|o| o.state == OState::Created);
        let never_run_needed = self.necessary.iter().any(|h| self.nodes[*h].last_run.is_none() && !self.nodes[*h].invalid);
        if !stale_needed_var && !pending_obs && !self.dropped_var_since_round && !never_run_needed && !res && self.phase == Phase::Outside {
            viol!(self, at, "C08", "is-stable-false", "is_stable() returned false although nothing is pending");
        }
    }

    // ------------------------------------------------------------------ rounds

    fn on_round_start(&mut self, _at: usize) {
        self.phase = Phase::Propagating;
        self.new_obs_since_round = false;
        self.round = self.rounds_started;
        self.rounds_started += 1;
        self.cov.rounds += 1;
        for o in self.obs.iter_mut() {
            match o.state {
                OState::Created => o.state = OState::InUse,
                OState::Disallowed => o.state = OState::Unlinked,
                _ => {}
            }
        }
        let unlinked: Vec<usize> = self.obs.iter().enumerate().filter(|(_, o)| o.state == OState::Unlinked).map(|(i, _)| i).collect();
        for s in self.subs.iter_mut() {
            if unlinked.contains(&s.oid) {
                s.live = false;
            }
            s.delivered_this_round = false;
        }
        self.reach_start = self.reachable();
        self.nodes_at_round_start = self.nodes.len();
        self.nec_before_round = self.necessary.clone();
        self.refresh_necessity();
        self.cone_start = self.necessary.clone();
        for n in self.nodes.iter_mut() {
            n.runs = 0;
            n.awaiting_invoke = false;
        }
        self.run_order.clear();
        self.expected_notifs.clear();
        self.expected_optional.clear();
        if self.cone_start.is_empty() && self.vars.iter().any(|v| self.nodes[v.hid].last_run.map_or(true, |lr| v.set_round > lr)) {
            self.cov.idle_rounds_with_writes += 1;
        }
    }

    fn opt_gt(a: Option<u32>, b: Option<u32>) -> bool {
        match (a, b) {
            (Some(x), Some(y)) => x > y,
            (Some(_), None) => true,
            _ => false,
        }
    }

    /// Is the change-detector node of bind `b` stale?
    fn lc_stale(&self, b: Hid) -> bool {
        let n = &self.nodes[b];
        let RK::Bind { lhs, .. } = &n.rk else { return false };
        n.lc_last_run.is_none() || Self::opt_gt(self.nodes[*lhs].last_changed, n.lc_last_run) || Self::opt_gt(self.nodes[*lhs].maybe_changed, n.lc_last_run)
    }

    /// (definitely stale, possibly stale through a relaxed map_ref change)
    fn stale(&self, h: Hid) -> (bool, bool) {
        let n = &self.nodes[h];
        if n.invalid {
            return (false, false);
        }
        if n.last_run.is_none() {
            return (true, true);
        }
        match &n.rk {
            RK::Var { vid, .. } => {
                let s = Some(self.vars[*vid].set_round) > n.last_run;
                (s, s)
            }
            RK::Const(_) | RK::BConst(_) | RK::BVar { .. } => (false, false),
            RK::Bind { .. } => {
                let mut def = Self::opt_gt(n.lc_last_run, n.last_run);
                let mut may = def || self.lc_stale(h);
                if let Some(r) = n.rhs {
                    def |= Self::opt_gt(self.nodes[r].last_changed, n.last_run);
                    may |= Self::opt_gt(self.nodes[r].maybe_changed, n.last_run);
                }
                (def, def || may)
            }
            _ => {
                let mut def = false;
                let mut may = false;
                for c in self.children(h) {
                    def |= Self::opt_gt(self.nodes[c].last_changed, n.last_run);
                    may |= Self::opt_gt(self.nodes[c].maybe_changed, n.last_run);
                }
                (def, def || may)
            }
        }
    }

    fn on_engine(&mut self, at: usize, e: EngineEv) {
        match e {
            EngineEv::Recompute(eid) => {
                if self.phase == Phase::Handlers {
                    viol!(self, at, "C09", "handler-before-propagation-end", "engine node {} recomputed after update handlers started running", eid);
                    return;
                }
                if self.phase != Phase::Propagating {
                    return;
                }
                self.finalize_fold(at);
                if let Some(&h) = self.by_engine.get(&eid) {
                    self.on_run_start(at, h);
                    if !instrumented(&self.nodes[h].rk) {
                        self.complete_uninstrumented(at, h);
                    }
                }
            }
            EngineEv::BecameNecessary(eid) => {
                if self.phase == Phase::Propagating {
                    if let Some(&h) = self.by_engine.get(&eid) {
                        self.transient.insert(h);
                    }
                }
            }
            EngineEv::Invalidate(eid) => {
                if let Some(&h) = self.by_engine.get(&eid) {
                    self.nodes[h].engine_invalid = true;
                    if matches!(self.nodes[h].rk, RK::Memo { .. }) {
                        viol!(self, at, "C20", "memo-node-invalidated", "node {} made by a memoised function was invalidated by the engine (it belongs to the scope the memoised function was created in)", h);
                    }
                }
            }
            EngineEv::BecameUnnecessary(eid) => {
                if self.phase == Phase::Propagating {
                    if let Some(&h) = self.by_engine.get(&eid) {
                        self.lost_necessity.insert(h);
                    }
                }
            }
        }
    }

    fn on_run_start(&mut self, at: usize, h: Hid) {
        let (def, may) = self.stale(h);
        let n = &mut self.nodes[h];
        n.runs += 1;
        let runs = n.runs;
        let was_invalid = n.invalid;
        n.awaiting_invoke = true;
        n.last_run_pos = at;
        self.run_order.push((h, at));
        if was_invalid && matches!(self.nodes[h].rk, RK::BMemo { .. }) {
            viol!(self, at, "C20", "local-memo-node-outlived-its-scope", "node {} made by a constructor memoised inside a bind closure was recomputed after that bind re-ran", h);
        }
        if was_invalid {
            viol!(self, at, "C03", "invalid-node-ran", "node {} was recomputed although it is invalid (its bind re-ran or an input is invalid)", h);
            return;
        }
        if runs > 1 {
            viol!(self, at, "C02", "double-run", "node {} ({:?}) was recomputed {} times in one stabilise", h, kind_name(&self.nodes[h].rk), runs);
            return;
        }
        if !def && !may && instrumented(&self.nodes[h].rk) {
            viol!(self, at, "C06", "spurious-run", "node {} was recomputed although none of its inputs changed since it last ran", h);
        }
        if !def && !may && matches!(self.nodes[h].rk, RK::Var { .. } | RK::Const(_) | RK::BConst(_) | RK::BVar { .. }) {
            viol!(self, at, "C06", "spurious-run", "{} node {} was recomputed although it was not written since it was last computed", kind_name(&self.nodes[h].rk), h);
        }
        if !def && may {
            self.cov.relax_r2 += 1;
        }
    }

    /// What node `h` showed to its dependants just before the current round's recompute of it
    /// (or of its input, for the map_ref views).
    fn prev_view(&self, h: Hid) -> Option<MV> {
        let n = &self.nodes[h];
        match &n.rk {
            RK::MapRef { src, proj } => match self.prev_view(*src) {
                Some(MV::P(a, b)) => Some(MV::I(if *proj == 0 { a } else { b })),
                Some(MV::I(x)) if *proj == 2 => Some(MV::I(x)),
                _ => None,
            },
            RK::MapRefQ { src } => match self.prev_view(*src) {
                Some(MV::Q(a, b, _)) => Some(MV::P(a, b)),
                _ => None,
            },
            _ => {
                if n.last_run == Some(self.round) {
                    n.prev_value
                } else {
                    n.value
                }
            }
        }
    }

    /// Is the node a map_with_old node, possibly seen through a chain of map_ref views?
    fn view_root_is_map_with_old(&self, src: Hid) -> bool {
        let mut cur = src;
        for _ in 0..64 {
            match &self.nodes[cur].rk {
                RK::MapWithOld { .. } => return true,
                RK::MapRef { src, .. } | RK::MapRefQ { src } => cur = *src,
                _ => return false,
            }
        }
        false
    }

    /// Did the input of a map_ref (looking through further map_refs) ever carry a cutoff that
    /// can suppress unequal values?
    fn view_input_had_noneq_cutoff(&self, src: Hid) -> bool {
        let mut cur = src;
        for _ in 0..64 {
            let n = &self.nodes[cur];
            if n.had_noneq_cutoff || !n.cutoff.only_suppresses_equal() {
                return true;
            }
            match &n.rk {
                RK::MapRef { src, .. } | RK::MapRefQ { src } => cur = *src,
                _ => return false,
            }
        }
        false
    }

    fn cached_i(&self, h: Hid) -> Option<i64> {
        self.val(h).map(|v| v.i())
    }

    fn complete_uninstrumented(&mut self, at: usize, h: Hid) {
        // a right-hand side built on an invalid node is invalid as soon as it is linked; the
        // engine then recomputes the bind's main node to make it invalid too
        if matches!(self.nodes[h].rk, RK::Bind { .. }) {
            if let Some(r) = self.nodes[h].rhs {
                self.spread_invalidity(r);
            }
        }
        let n = &self.nodes[h];
        let new: Option<MV> = match &n.rk {
            RK::Var { vid, .. } => Some(self.vars[*vid].value),
            RK::Const(v) => Some(*v),
            RK::BConst(v) | RK::BVar { v } => Some(MV::I(*v)),
            RK::Fold { init, .. } => Some(MV::I(*init)),
            RK::BFold { .. } => Some(MV::I(0)),
            RK::Zip { a, b } => match (self.cached_i(*a), self.cached_i(*b)) {
                (Some(x), Some(y)) => Some(MV::P(x, y)),
                _ => None,
            },
            RK::MapRef { src, proj } => match self.val(*src) {
                Some(MV::P(a, b)) => Some(MV::I(if *proj == 0 { a } else { b })),
                Some(MV::I(x)) if *proj == 2 => Some(MV::I(x)),
                _ => None,
            },
            RK::ZipQ { a, b } => match (self.val(*a), self.cached_i(*b)) {
                (Some(MV::P(x, y)), Some(z)) => Some(MV::Q(x, y, z)),
                _ => None,
            },
            RK::MapRefQ { src } => match self.val(*src) {
                Some(MV::Q(a, b, _)) => Some(MV::P(a, b)),
                _ => None,
            },
            RK::DependOn { a, .. } => self.val(*a),
            RK::Bind { .. } => match n.rhs {
                Some(r) if !self.nodes[r].invalid => self.val(r),
                Some(_) => {
                    // right-hand side invalid: the bind's result becomes invalid too
                    self.nodes[h].awaiting_invoke = false;
                    self.invalidate(h);
                    return;
                }
                None => None,
            },
            _ => None,
        };
        match new {
            Some(v) => self.complete_run(at, h, v),
            None => {
                self.nodes[h].awaiting_invoke = false;
                viol!(self, at, "C02", "input-without-value", "node {} ({}) was recomputed before one of its inputs had a value", h, kind_name(&self.nodes[h].rk));
            }
        }
    }

    fn complete_run(&mut self, _at: usize, h: Hid, new: MV) {
        let round = self.round;
        let old = self.nodes[h].value;
        let mut maybe = false;
        let changed = match (&self.nodes[h].rk, old) {
            (_, None) => true,
            (RK::MapWithOld { .. }, Some(o)) => o != new,
            // depend_on installs a cutoff comparing the two nodes' change stamps (until replaced)
            (RK::DependOn { a, .. }, Some(_)) if !self.nodes[h].cutoff_set => {
                // the engine compares its own change stamps of the two nodes. Where a node's last
                // change was a relaxed one (R2: the engine may or may not have reported it), its
                // stamp is one of two candidates; the verdict is definite only if it is the same
                // under every combination
                let stamps = |n: &crate::model::MNode| -> Vec<Option<u32>> {
                    let mut v = vec![n.last_changed];
                    for r in n.maybe_history.iter() {
                        if Self::opt_gt(Some(*r), n.last_changed) {
                            v.push(Some(*r));
                        }
                    }
                    v
                };
                let (sa, sh) = (stamps(&self.nodes[*a]), stamps(&self.nodes[h]));
                let mut verdicts = sa.iter().flat_map(|x| sh.iter().map(move |y| x != y));
                let first = verdicts.next().unwrap_or(true);
                if verdicts.all(|v| v == first) {
                    first
                } else {
                    maybe = true;
                    false
                }
            }
            (RK::MapRef { src, .. } | RK::MapRefQ { src }, Some(o)) => {
                let s = &self.nodes[*src];
                // a node that stayed linked since its last recompute has heard of every change of
                // its input: the engine then compares the old and the new projection of what the
                // input held (a map_ref is a view of its input's stored value)
                let continuously = self.cone_start.contains(&h) && self.nec_before_round.contains(&h) && !self.transient.contains(&h);
                if continuously && s.last_run == Some(round) && s.last_changed == Some(round) {
                    let c = match (self.prev_view(h), self.val(h)) {
                        // a map_with_old input never tells its dependants what it held before, so the
                        // view cannot consult its cutoff and always reports the change (upstream's
                        // documented trade-off, tests/basic.rs::map_with_old_map_ref)
                        // (also through a chain of views)
                        _ if self.view_root_is_map_with_old(*src) => true,
                        (Some(a), Some(b)) => !self.nodes[h].cutoff.cuts(a, b),
                        _ => true,
                    };
                    // a map_ref below us with a cutoff that suppresses unequal values may have
                    // swallowed an earlier change of ours that is only surfacing now
                    // (any cutoff it has had counts: the swallowed change may date from before a
                    // later set_cutoff)
                    // (likewise a cutoff this view itself has had: under Cutoff::Never, say, it latched a
                    // "changed" verdict on an equal projection while its input view did not pass the
                    // change on, so it was not recomputed then)
                    // (and the suppressing view may be anywhere further up the chain of views)
                    if !c && matches!(s.rk, RK::MapRef { .. } | RK::MapRefQ { .. }) && (self.view_input_had_noneq_cutoff(*src) || self.nodes[h].cutoff_set) {
                        maybe = true;
                    }
                    c
                } else {
                    // reconnected: a real difference must be reported; with an equal projection
                    // the engine may still report a change (relaxation R2)
                    let c = !self.nodes[h].cutoff.cuts(o, new);
                    if !c {
                        maybe = true;
                        c
                    } else if self.view_input_had_noneq_cutoff(*src) {
                        // the input stores a result even when its cutoff suppresses it: if that
                        // cutoff can suppress unequal values, the difference to what this view
                        // last showed may stem from a suppressed change, which dependants need
                        // not hear of (they may)
                        maybe = true;
                        false
                    } else {
                        c
                    }
                }
            }
            (_, Some(o)) => !self.nodes[h].cutoff.cuts(o, new),
        };
        if changed {
            self.cov.cutoff_false += 1;
        } else {
            self.cov.cutoff_true += 1;
        }
        let n = &mut self.nodes[h];
        n.prev_value = old;
        n.value = Some(new);
        n.last_run = Some(round);
        n.awaiting_invoke = false;
        if changed {
            n.last_changed = Some(round);
            n.maybe_history.clear();
        }
        if maybe {
            n.maybe_changed = Some(round);
            if n.maybe_history.last() != Some(&round) {
                n.maybe_history.push(round);
            }
        }
    }

    fn expected_args(&self, h: Hid) -> Vec<(Hid, Option<MV>)> {
        let v = |x: Hid| (x, self.val(x));
        match &self.nodes[h].rk {
            RK::Map { src, .. } | RK::MapP { src, .. } | RK::MapIP { src } | RK::MapWithOld { src, .. } | RK::BMap { src, .. } | RK::Memo { src, .. } | RK::BMemo { src, .. } => vec![v(*src)],
            RK::MapN { srcs, .. } => srcs.iter().map(|s| v(*s)).collect(),
            RK::BMap2 { a, b, .. } => vec![v(*a), v(*b)],
            _ => vec![],
        }
    }

    fn on_invoke(&mut self, at: usize, hid: Hid, args: &[MV], old: Option<MV>, result: MV) {
        self.cov.invocations += 1;
        if self.phase != Phase::Propagating {
            viol!(self, at, "C05", "invoke-outside-stabilise", "function of node {} ran outside the propagation phase of a stabilise", hid);
            return;
        }
        if !self.nodes[hid].awaiting_invoke {
            self.on_run_start(at, hid);
        }
        if let Some((b, g)) = self.nodes[hid].scope {
            if self.nodes[b].gen != Some(g) {
                viol!(self, at, "C03", "stale-generation-ran", "function of node {} (built by run {} of bind {}) ran after the bind re-ran (now run {:?})", hid, g, b, self.nodes[b].gen);
            }
        }
        let exp = self.expected_args(hid);
        if exp.len() == args.len() {
            for (i, (c, ev)) in exp.iter().enumerate() {
                if *ev != Some(args[i]) {
                    let is_var = matches!(self.nodes[*c].rk, RK::Var { .. });
                    if is_var {
                        viol!(self, at, "C08", "reader-saw-other-value", "node {} read {:?} from variable node {} whose value for this stabilise is {:?}", hid, args[i], c, ev);
                    } else {
                        viol!(self, at, "C02", "argument-not-input-value", "node {} received {:?} for input {} whose current value is {:?}", hid, args[i], c, ev);
                    }
                }
            }
        }
        if matches!(self.nodes[hid].rk, RK::MapWithOld { .. }) && old != self.nodes[hid].value {
            viol!(self, at, "C01", "map-with-old-previous", "map_with_old node {} was handed {:?} as its previous output, expected {:?}", hid, old, self.nodes[hid].value);
        }
        self.complete_run(at, hid, result);
    }

    pub fn finalize_fold(&mut self, at: usize) {
        let Some(h) = self.current_fold.take() else { return };
        let steps = std::mem::take(&mut self.nodes[h].fold_steps);
        let (srcs, init, f) = match &self.nodes[h].rk {
            RK::Fold { srcs, init, f } => (srcs.clone(), *init, *f),
            RK::BFold { srcs, f } => (srcs.clone(), 0, *f),
            _ => return,
        };
        if steps.len() != srcs.len() {
            viol!(self, at, "C02", "fold-pass", "fold node {} called its function {} times for {} inputs in one recompute", h, steps.len(), srcs.len());
        }
        let mut acc = init;
        for (i, (a, x, r)) in steps.iter().enumerate() {
            if i < srcs.len() {
                let cv = self.cached_i(srcs[i]);
                if cv != Some(*x) {
                    viol!(self, at, "C02", "argument-not-input-value", "fold node {} received {} for input #{} (node {}) whose current value is {:?}", h, x, i, srcs[i], cv);
                }
            }
            if *a != acc {
                viol!(self, at, "C02", "fold-order", "fold node {} step {} started from accumulator {} instead of {}", h, i, a, acc);
            }
            acc = f.ap(*a, *x);
            let _ = r;
        }
        let result = steps.last().map(|s| s.2).unwrap_or(init);
        self.complete_run(at, h, MV::I(result));
    }

    fn on_bind_run(&mut self, at: usize, b: Hid, gen: u32, l: i64, rhs: Hid) {
        let round = self.round;
        if self.phase != Phase::Propagating {
            viol!(self, at, "C05", "invoke-outside-stabilise", "closure of bind {} ran outside the propagation phase", b);
            return;
        }
        if self.nodes[b].invalid {
            viol!(self, at, "C03", "invalid-node-ran", "closure of bind {} ran although the bind is invalid", b);
        }
        if self.nodes[b].lc_last_run == Some(round) {
            viol!(self, at, "C02", "double-run", "closure of bind {} ran twice in one stabilise", b);
        } else if !self.lc_stale(b) {
            viol!(self, at, "C06", "spurious-run", "closure of bind {} re-ran although its input did not change", b);
        }
        let RK::Bind { lhs, .. } = &self.nodes[b].rk else { return };
        let lv = self.cached_i(*lhs);
        if lv != Some(l) {
            viol!(self, at, "C02", "argument-not-input-value", "closure of bind {} received {} but its input node {} has value {:?}", b, l, lhs, lv);
        }
        if let Some((ob, og)) = self.nodes[b].scope {
            if self.nodes[ob].gen != Some(og) {
                viol!(self, at, "C03", "stale-generation-ran", "closure of nested bind {} (built by run {} of bind {}) ran after that bind re-ran", b, og, ob);
            }
        }
        if gen > 0 {
            self.cov.bind_switches += 1;
            // shape coverage: a switch while an older generation still had needed nodes
        }
        self.invalidate_scope(b, gen);
        let n = &mut self.nodes[b];
        n.gen = Some(gen);
        n.cur_l = Some(l);
        n.rhs = Some(rhs);
        n.lc_last_run = Some(round);
        self.cov.invocations += 1;
    }

    fn on_cutoff(&mut self, at: usize, hid: Option<Hid>, old: MV, new: MV, _res: bool) {
        // the cutoff of a node is consulted right after its function returned: (previous, new)
        let target = hid.or_else(|| self.run_order.last().map(|(h, _)| *h));
        let Some(h) = target else { return };
        let n = &self.nodes[h];
        let direct = n.prev_value == Some(old) && n.value == Some(new);
        // map_ref dependants (possibly chained) consult their cutoffs on projections of the node
        // that just ran, from inside child_changed
        let last = self.run_order.last().map(|(h, _)| *h);
        let via_ref = last.map_or(false, |l| {
            let ln = &self.nodes[l];
            let mut cands: Vec<(Option<MV>, Option<MV>)> = vec![(ln.prev_value, ln.value)];
            let mut i = 0;
            while i < cands.len() && cands.len() < 16 {
                let (a, b) = cands[i];
                match (a, b) {
                    (Some(MV::Q(a1, a2, _)), Some(MV::Q(b1, b2, _))) => cands.push((Some(MV::P(a1, a2)), Some(MV::P(b1, b2)))),
                    (Some(MV::P(a1, a2)), Some(MV::P(b1, b2))) => {
                        cands.push((Some(MV::I(a1)), Some(MV::I(b1))));
                        cands.push((Some(MV::I(a2)), Some(MV::I(b2))));
                    }
                    _ => {}
                }
                i += 1;
            }
            // (an identity view of a scalar node is consulted with the very pair of its input)
            let skip = if matches!(n.rk, RK::MapRef { proj: 2, .. }) { 0 } else { 1 };
            cands.iter().skip(skip).any(|(a, b)| *a == Some(old) && *b == Some(new))
        });
        let swapped = n.prev_value == Some(new) && n.value == Some(old) && old != new;
        if swapped && !direct && !via_ref {
            viol!(self, at, "C06", "cutoff-argument-order", "cutoff of node {} was consulted with (new, old) = ({:?}, {:?})", h, old, new);
        } else if !direct && !via_ref && hid.is_some() {
            viol!(self, at, "C06", "cutoff-arguments", "cutoff of node {} was consulted with ({:?}, {:?}) but its previous/new results are ({:?}, {:?})", h, old, new, n.prev_value, n.value);
        }
    }
}

pub fn kind_name(rk: &RK) -> &'static str {
    match rk {
        RK::Var { .. } => "var",
        RK::Const(_) => "const",
        RK::Map { .. } => "map",
        RK::MapP { .. } => "map(pair)",
        RK::MapIP { .. } => "map(to pair)",
        RK::MapN { .. } => "mapN",
        RK::Fold { .. } => "fold",
        RK::Zip { .. } => "zip",
        RK::MapRef { .. } => "map_ref",
        RK::ZipQ { .. } => "zip(pair, scalar)",
        RK::MapRefQ { .. } => "map_ref(of triple)",
        RK::MapWithOld { .. } => "map_with_old",
        RK::DependOn { .. } => "depend_on",
        RK::Bind { .. } => "bind",
        RK::BConst(_) => "const(in bind)",
        RK::BMap { .. } => "map(in bind)",
        RK::BMap2 { .. } => "map2(in bind)",
        RK::BFold { .. } => "fold(in bind)",
        RK::BVar { .. } => "var(in bind)",
        RK::Memo { .. } => "memo node",
        RK::BMemo { .. } => "node of a constructor memoised inside a bind",
    }
}

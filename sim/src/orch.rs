//! Orchestration: worker processes (so that an abort or stack overflow in one run is itself a
//! detectable event), aggregation, minimisation, replay files, known findings, evidence.

use std::collections::{BTreeMap, BTreeSet};
use std::io::{BufRead, BufReader, Write};
use std::process::{Command, Stdio};

use serde::{Deserialize, Serialize};

use crate::plan::*;
use crate::rng::mix;
use crate::run::RunOutput;
use crate::shrink::Shrinker;
use crate::spec::{self, Engine};

#[derive(Serialize, Deserialize, Clone, Debug, Default)]
pub struct Agg {
    pub runs: u64,
    pub histories: u64,
    pub triggered: u64,
    pub events: u64,
    pub actions: u64,
    pub cov: BTreeMap<String, u64>,
    pub probes: BTreeMap<String, u64>,
    pub faults: BTreeMap<String, u64>,
    pub hashes: Vec<u64>,
    pub cut_short: BTreeMap<String, u64>,
    /// for each of those, one seed (and flavour) that shows it: `simcheck show <property> <seed>`
    #[serde(default)]
    pub cut_short_example: BTreeMap<String, String>,
    /// runs with a violation of the property under check, per oracle rule and build flavour
    pub viol_runs: BTreeMap<String, u64>,
    pub samples: Vec<serde_json::Value>,
    pub recheck: Vec<(u64, i64, u64)>,
    pub wall_ms: u64,
}

#[derive(Serialize, Deserialize, Clone, Debug)]
pub struct ViolRec {
    pub i: u64,
    pub k: i64,
    pub seed: u64,
    pub property: String,
    pub rule: String,
    pub detail: String,
    pub flavour: String,
}

#[derive(Serialize, Deserialize, Clone, Debug)]
pub struct Replay {
    pub property: String,
    pub rule: String,
    pub detail: String,
    pub flavour: String,
    pub seed: u64,
    pub tier: String,
    pub minimised: bool,
    pub plan: Plan,
    pub trace_hash: u64,
}

#[derive(Serialize, Deserialize, Clone, Debug)]
pub struct Known {
    pub status: String,
    pub property: String,
    pub rule: String,
    #[serde(default)]
    pub detail_contains: Vec<String>,
    pub what: String,
    #[serde(default)]
    pub commit: String,
}

pub fn cov_map(out: &RunOutput) -> Vec<(&'static str, u64)> {
    let c = &out.cov;
    vec![
        ("rounds", c.rounds),
        ("callback_invocations", c.invocations),
        ("bind_switches", c.bind_switches),
        ("reobserved_nodes", c.reobserved),
        ("writes_to_unobserved_cones", c.disconnect_writes),
        ("cutoff_suppressed", c.cutoff_true),
        ("cutoff_passed", c.cutoff_false),
        ("notifications", c.notifications),
        ("invalidated_nodes", c.invalidated_nodes),
        ("deferred_writes", c.deferred_writes),
        ("handler_phase_writes", c.handler_writes),
        ("reads_checked", c.reads_checked),
        ("ran_needed_only_at_round_start", c.may_run_only),
        ("relaxation_R2_used", c.relax_r2),
        ("audits", c.audits),
        ("lifecycle_results_checked", c.lifecycle_errors_checked),
        ("idle_rounds_with_pending_writes", c.idle_rounds_with_writes),
        ("c01_from_scratch_comparisons", c.c01_value_checks),
        ("c01_skipped_non_equality_cutoff", c.c01_skipped_noneq_cutoff),
        ("memo_calls", c.memo_calls),
        ("memo_hits_on_live_node", c.memo_hits),
        ("memo_recreated_after_drop", c.memo_recreated),
    ]
}

pub fn gen_for(prop: &str, seed: u64, _tier: &str) -> Plan {
    let sp = spec::spec(prop).expect("unknown property");
    let mut plan = match sp.engine {
        // C12: one history in five is a typed shape template (vars of vars, ...)
        Engine::Core if prop == "C12" && seed % 5 == 0 => crate::templates::gen_plan(seed),
        // C11: the audit also runs over the expert, map and template engines
        Engine::Core if prop == "C11" && seed % 8 == 0 => crate::expert::gen_plan(seed),
        Engine::Core if prop == "C11" && seed % 8 == 1 => crate::mapeng::gen_plan(if seed % 16 == 1 { "C15" } else { "C16" }, seed),
        Engine::Core if prop == "C11" && seed % 8 == 2 => crate::templates::gen_plan(seed),
        // (and over histories with heights around a small limit, with reconfigurations)
        Engine::Core if prop == "C11" && seed % 16 == 3 => crate::limits::gen_plan(seed),
        // C04: well-formed programs over the expert API, incremental-map and the typed shapes
        Engine::Core if prop == "C04" && seed % 8 == 0 => crate::expert::gen_plan(seed),
        Engine::Core if prop == "C04" && seed % 8 == 1 => crate::mapeng::gen_plan(if seed % 16 == 1 { "C15" } else { "C16" }, seed),
        Engine::Core if prop == "C04" && seed % 16 == 2 => crate::templates::gen_plan(seed),
        // C02: expert nodes with dependencies added while they are needed (heights must follow)
        Engine::Core if prop == "C02" && seed % 16 == 4 => crate::expert::gen_plan(seed),
        // C05: expert nodes are computed only while needed, too
        Engine::Core if prop == "C05" && seed % 16 == 6 => crate::expert::gen_plan(seed),
        // C07: programs whose expert node writes a variable from its observability callback
        Engine::Core if prop == "C07" && seed % 16 == 3 => crate::expert::gen_plan(seed),
        // C20: a memoised constructor keyed by nodes chained on one keyed by numbers (typed shape)
        Engine::Core if prop == "C20" && seed % 16 == 5 => crate::templates::gen_plan_shape(seed, Some(crate::templates::SHAPE_MEMO_CHAIN)),
        Engine::Core => crate::gen::gen_plan(seed, &spec::profile(prop)),
        Engine::Expert | Engine::Map | Engine::Limits => crate::engines::gen_plan(prop, seed),
    };
    // C11's audit lines describe latent corruption: for every other property keep going after one
    plan.knobs.stop_on = prop.to_string();
    plan
}

pub fn run_any(plan: &Plan, keep: bool) -> RunOutput {
    match plan.engine.as_str() {
        "core" => crate::run::run_plan(plan, keep),
        _ => crate::engines::run_plan(plan, keep),
    }
}

fn summarise_plan(plan: &Plan, out: &RunOutput) -> serde_json::Value {
    let acts: Vec<String> = plan.actions.iter().take(40).map(|a| format!("{:?}", a)).collect();
    serde_json::json!({
        "actions": acts,
        "truncated": plan.actions.len() > 40,
        "extra": plan.extra,
        "knobs": plan.knobs,
        "trace_events": out.events,
        "rounds": out.cov.rounds,
        "callback_invocations": out.cov.invocations,
        "reads_checked": out.cov.reads_checked,
    })
}

fn absorb(agg: &mut Agg, prop: &str, out: &RunOutput, plan: &Plan, hash_extra: u64) -> bool {
    agg.runs += 1;
    agg.events += out.events;
    agg.actions += out.actions;
    for (k, v) in cov_map(out) {
        *agg.cov.entry(k.to_string()).or_insert(0) += v;
    }
    for (k, v) in out.probes.iter() {
        *agg.probes.entry(k.clone()).or_insert(0) += *v;
    }
    for (k, v) in out.faults.iter() {
        *agg.faults.entry(k.clone()).or_insert(0) += *v;
    }
    if plan.knobs.tie_break.is_some() {
        *agg.faults.entry("tie_break_runs".into()).or_insert(0) += 1;
    }
    *agg.faults.entry("hash_order_runs".into()).or_insert(0) += 1;
    let trig = spec::trigger(prop, out);
    if trig {
        agg.triggered += 1;
        if agg.hashes.len() < 400_000 {
            agg.hashes.push(out.shape_hash ^ hash_extra);
        }
        if agg.samples.len() < 2 {
            agg.samples.push(summarise_plan(plan, out));
        }
    }
    trig
}

/// `simcheck worker <prop> <tier> <batch_seed> <start> <stride> <count> <flavour>`
pub fn worker(args: &[String]) {
    let prop = args[0].as_str();
    let tier = args[1].as_str();
    let batch: u64 = args[2].parse().unwrap();
    let start: u64 = args[3].parse().unwrap();
    let stride: u64 = args[4].parse().unwrap();
    let count: u64 = args[5].parse().unwrap();
    let flavour = args[6].clone();
    let sp = spec::spec(prop).expect("unknown property");
    let t0 = std::time::Instant::now();
    let mut agg = Agg::default();
    let stdout = std::io::stdout();
    let report = |out: &RunOutput, i: u64, k: i64, seed: u64, agg: &mut Agg| {
        let mut seen = BTreeSet::new();
        for v in out.violations.iter() {
            if v.property == prop || v.property == "HARNESS" {
                if seen.insert(v.rule) {
                    let rec = ViolRec { i, k, seed, property: v.property.to_string(), rule: v.rule.to_string(), detail: v.detail.clone(), flavour: flavour.clone() };
                    let mut o = stdout.lock();
                    let _ = writeln!(o, "VIOL {}", serde_json::to_string(&rec).unwrap());
                }
            } else if seen.insert(v.property) {
                *agg.cut_short.entry(format!("{} {}", v.property, v.rule)).or_insert(0) += 1;
                agg.cut_short_example.entry(format!("{} {}", v.property, v.rule)).or_insert_with(|| format!("seed {} ({})", seed, flavour));
            }
        }
    };
    for n in 0..count {
        let i = start + n * stride;
        let seed = mix(batch, i);
        let plan = gen_for(prop, seed, tier);
        {
            let mut o = stdout.lock();
            let _ = writeln!(o, "START {} -1", i);
        }
        let out = run_any(&plan, false);
        agg.histories += 1;
        if !sp.crash_enumeration {
            absorb(&mut agg, prop, &out, &plan, 0);
            report(&out, i, -1, seed, &mut agg);
            if i % 50 == 0 {
                agg.recheck.push((i, -1, out.trace_hash));
            }
        } else {
            // fault enumeration: one fault-free run to count the crash points, then one run per point
            report(&out, i, -1, seed, &mut agg);
            if !out.violations.is_empty() {
                continue;
            }
            let m = out.crash_points;
            for k in 0..m {
                let mut p = plan.clone();
                p.knobs.crash_at = Some(k);
                {
                    let mut o = stdout.lock();
                    let _ = writeln!(o, "START {} {}", i, k);
                }
                let out = run_any(&p, false);
                absorb(&mut agg, prop, &out, &p, mix(seed, k));
                report(&out, i, k as i64, seed, &mut agg);
                if i % 50 == 0 && k % 7 == 0 {
                    agg.recheck.push((i, k as i64, out.trace_hash));
                }
            }
        }
    }
    agg.hashes.sort();
    agg.hashes.dedup();
    agg.wall_ms = t0.elapsed().as_millis() as u64;
    let mut o = stdout.lock();
    let _ = writeln!(o, "AGG {}", serde_json::to_string(&agg).unwrap());
}

/// `simcheck rehash <prop> <tier> <batch> i:k,i:k,...` prints `HASH i k hash`
pub fn rehash(args: &[String]) {
    let prop = args[0].as_str();
    let tier = args[1].as_str();
    let batch: u64 = args[2].parse().unwrap();
    for item in args[3].split(',').filter(|s| !s.is_empty()) {
        let (i, k) = item.split_once(':').unwrap();
        let i: u64 = i.parse().unwrap();
        let k: i64 = k.parse().unwrap();
        let mut plan = gen_for(prop, mix(batch, i), tier);
        if k >= 0 {
            plan.knobs.crash_at = Some(k as u64);
        }
        let out = run_any(&plan, false);
        println!("HASH {} {} {}", i, k, out.trace_hash);
    }
}

/// Root of the verification tree this binary belongs to (a snapshot of /verif under `vp run`).
pub fn root() -> String {
    std::env::var("VERIF_ROOT").unwrap_or_else(|_| "/verif".to_string())
}

/// The simulator binary of the given flavour, next to the one that is running.
fn exe(flavour: &str) -> String {
    let dir = if flavour == "dbg" { "debug" } else { "release" };
    if let Ok(me) = std::env::current_exe() {
        if let Some(target) = me.parent().and_then(|p| p.parent()) {
            return format!("{}/{}/simcheck", target.display(), dir);
        }
    }
    format!("/verif/target/{}/simcheck", dir)
}

struct PhaseResult {
    agg: Agg,
    viols: Vec<ViolRec>,
    died: Vec<(u64, i64)>,
    hung: Vec<(u64, i64)>,
}

fn merge(a: &mut Agg, b: Agg) {
    a.runs += b.runs;
    a.histories += b.histories;
    a.triggered += b.triggered;
    a.events += b.events;
    a.actions += b.actions;
    for (k, v) in b.cov {
        *a.cov.entry(k).or_insert(0) += v;
    }
    for (k, v) in b.probes {
        *a.probes.entry(k).or_insert(0) += v;
    }
    for (k, v) in b.faults {
        *a.faults.entry(k).or_insert(0) += v;
    }
    for (k, v) in b.cut_short_example {
        a.cut_short_example.entry(k).or_insert(v);
    }
    for (k, v) in b.cut_short {
        *a.cut_short.entry(k).or_insert(0) += v;
    }
    a.hashes.extend(b.hashes);
    for s in b.samples {
        if a.samples.len() < 3 {
            a.samples.push(s);
        }
    }
    a.recheck.extend(b.recheck);
    a.wall_ms = a.wall_ms.max(b.wall_ms);
}

fn run_phase(prop: &str, tier: &str, batch: u64, flavour: &str, total: u64, workers: u64, index_base: u64) -> PhaseResult {
    let mut res = PhaseResult { agg: Agg::default(), viols: vec![], died: vec![], hung: vec![] };
    if total == 0 {
        return res;
    }
    let workers = workers.min(total).max(1);
    let mut handles = vec![];
    for wi in 0..workers {
        let count = total / workers + if wi < total % workers { 1 } else { 0 };
        let prop = prop.to_string();
        let tier = tier.to_string();
        let flavour = flavour.to_string();
        handles.push(std::thread::spawn(move || {
            let mut agg = Agg::default();
            let mut viols = vec![];
            let mut died = vec![];
            let mut hung: Vec<(u64, i64)> = vec![];
            // a worker that dies is restarted after the run that killed it
            let mut done = 0u64;
            while done < count {
                let start = index_base + wi + done * workers;
                let mut child = Command::new(exe(&flavour))
                    .args(["worker", &prop, &tier, &batch.to_string(), &start.to_string(), &workers.to_string(), &(count - done).to_string(), &flavour])
                    .stdout(Stdio::piped())
                    .stderr(Stdio::null())
                    .spawn()
                    .expect("spawn worker");
                let out = BufReader::new(child.stdout.take().unwrap());
                let mut last: Option<(u64, i64)> = None;
                let mut finished = false;
                let mut histories_started = 0u64;
                // a reader thread, so that a run that hangs (no progress for a long time) is detected
                let (tx, rx) = std::sync::mpsc::channel::<String>();
                let reader = std::thread::spawn(move || {
                    for line in out.lines() {
                        let Ok(line) = line else { break };
                        if tx.send(line).is_err() {
                            break;
                        }
                    }
                });
                let stall = std::time::Duration::from_secs(180);
                loop {
                    let line = match rx.recv_timeout(stall) {
                        Ok(l) => l,
                        Err(std::sync::mpsc::RecvTimeoutError::Timeout) => {
                            // no run takes this long: the in-flight run hangs
                            let _ = child.kill();
                            if let Some(l) = last {
                                hung.push(l);
                                last = None;
                            }
                            break;
                        }
                        Err(_) => break,
                    };
                    if let Some(rest) = line.strip_prefix("START ") {
                        let mut it = rest.split(' ');
                        let i: u64 = it.next().unwrap().parse().unwrap();
                        let k: i64 = it.next().unwrap().parse().unwrap();
                        if k < 0 {
                            histories_started += 1;
                        }
                        last = Some((i, k));
                    } else if let Some(rest) = line.strip_prefix("VIOL ") {
                        if let Ok(v) = serde_json::from_str::<ViolRec>(rest) {
                            viols.push(v);
                        }
                    } else if let Some(rest) = line.strip_prefix("AGG ") {
                        if let Ok(a) = serde_json::from_str::<Agg>(rest) {
                            merge(&mut agg, a);
                            finished = true;
                        }
                    }
                }
                let _ = reader.join();
                let _ = child.wait();
                if finished {
                    break;
                }
                // the worker died: the in-flight run is the culprit
                if let Some(l) = last {
                    died.push(l);
                }
                done += histories_started.max(1);
                // a tree on which runs keep killing or stalling the process has failed the check;
                // there is no point in restarting workers thousands of times
                if died.len() + hung.len() >= 8 {
                    break;
                }
            }
            (agg, viols, died, hung)
        }));
    }
    for h in handles {
        let (a, v, d, hg) = h.join().expect("worker thread");
        merge(&mut res.agg, a);
        res.viols.extend(v);
        res.died.extend(d);
        res.hung.extend(hg);
    }
    res
}

pub fn sigs_of(out: &RunOutput) -> Vec<(String, String)> {
    out.violations.iter().map(|v| (v.property.to_string(), v.rule.to_string())).collect()
}

/// Runs a plan in a child process of the given flavour (needed when the failure kills the process).
pub fn run_in_child(plan: &Plan, flavour: &str) -> Vec<(String, String)> {
    let dir = format!("{}/target-tmp", root());
    let _ = std::fs::create_dir_all(&dir);
    let path = format!("{}/plan-{}-{:?}.json", dir, std::process::id(), std::thread::current().id());
    std::fs::write(&path, serde_json::to_string(plan).unwrap()).unwrap();
    let outpath = format!("{}.out", path);
    let outfile = std::fs::File::create(&outpath).unwrap();
    let child = Command::new(exe(flavour)).args(["runplan", &path]).stdout(Stdio::from(outfile)).stderr(Stdio::null()).spawn();
    let Ok(mut child) = child else { return vec![("HARNESS".into(), "spawn-failed".into())] };
    let t0 = std::time::Instant::now();
    let mut hung = false;
    loop {
        match child.try_wait() {
            Ok(Some(_)) => break,
            Ok(None) => {
                if t0.elapsed().as_secs() > 120 {
                    let _ = child.kill();
                    let _ = child.wait();
                    hung = true;
                    break;
                }
                std::thread::sleep(std::time::Duration::from_millis(5));
            }
            Err(_) => break,
        }
    }
    let text = std::fs::read_to_string(&outpath).unwrap_or_default();
    let _ = std::fs::remove_file(&path);
    let _ = std::fs::remove_file(&outpath);
    if hung {
        return vec![("*".into(), "hang".into())];
    }
    let mut sigs = vec![];
    let mut done = false;
    for l in text.lines() {
        if let Some(rest) = l.strip_prefix("SIG ") {
            if let Some((p, r)) = rest.split_once(' ') {
                sigs.push((p.to_string(), r.to_string()));
            }
        } else if l == "DONE" {
            done = true;
        }
    }
    if !done {
        sigs.push(("*".into(), "process-died".into()));
    }
    sigs
}

/// `minimise <plan file> <property> <rule> <out file>`: in-process minimisation in this
/// binary's build flavour (used by the orchestrator for violations seen in the other flavour).
pub fn minimise_file(args: &[String]) {
    let text = std::fs::read_to_string(&args[0]).expect("read plan");
    let plan: Plan = serde_json::from_str(&text).expect("parse plan");
    let target = (args[1].clone(), args[2].clone());
    let runner = |p: &Plan| -> Vec<(String, String)> { sigs_of(&run_any(p, false)) };
    let reproduced = runner(&plan).contains(&target);
    let min = if reproduced {
        let mut sh = Shrinker { target: target.clone(), run: &runner, budget: 3000, used: 0 };
        sh.minimise(&plan)
    } else {
        plan.clone()
    };
    let out = run_any(&min, false);
    let detail = out.violations.iter().find(|x| x.property == target.0 && x.rule == target.1).map(|x| x.detail.clone());
    let res = serde_json::json!({ "reproduced": reproduced, "plan": min, "detail": detail, "trace_hash": out.trace_hash });
    std::fs::write(&args[3], serde_json::to_string(&res).unwrap()).expect("write result");
    println!("DONE");
}

/// Runs `minimise_file` in the binary of the given flavour. None = it did not work out.
fn minimise_in_flavour(plan: &Plan, flavour: &str, prop: &str, rule: &str) -> Option<(bool, Plan, Option<String>, u64)> {
    let dir = format!("{}/target-tmp", root());
    let _ = std::fs::create_dir_all(&dir);
    let path = format!("{}/min-{}.json", dir, std::process::id());
    let outpath = format!("{}.out", path);
    std::fs::write(&path, serde_json::to_string(plan).unwrap()).ok()?;
    let mut child = Command::new(exe(flavour)).args(["minimise", &path, prop, rule, &outpath]).stdout(Stdio::null()).stderr(Stdio::null()).spawn().ok()?;
    let t0 = std::time::Instant::now();
    let ok = loop {
        match child.try_wait() {
            Ok(Some(st)) => break st.success(),
            Ok(None) => {
                if t0.elapsed().as_secs() > 600 {
                    let _ = child.kill();
                    let _ = child.wait();
                    break false;
                }
                std::thread::sleep(std::time::Duration::from_millis(20));
            }
            Err(_) => break false,
        }
    };
    let text = std::fs::read_to_string(&outpath).unwrap_or_default();
    let _ = std::fs::remove_file(&path);
    let _ = std::fs::remove_file(&outpath);
    if !ok {
        return None;
    }
    let v: serde_json::Value = serde_json::from_str(&text).ok()?;
    let plan: Plan = serde_json::from_value(v.get("plan")?.clone()).ok()?;
    Some((v.get("reproduced")?.as_bool()?, plan, v.get("detail").and_then(|d| d.as_str()).map(|s| s.to_string()), v.get("trace_hash").and_then(|h| h.as_u64()).unwrap_or(0)))
}

pub fn runplan(path: &str) {
    let text = std::fs::read_to_string(path).expect("read plan");
    let plan: Plan = serde_json::from_str(&text).expect("parse plan");
    let out = run_any(&plan, false);
    for (p, r) in sigs_of(&out) {
        println!("SIG {} {}", p, r);
    }
    println!("HASHLINE {}", out.trace_hash);
    println!("DONE");
}

fn load_known() -> Vec<Known> {
    let Ok(text) = std::fs::read_to_string(format!("{}/known_findings.jsonl", root())) else { return vec![] };
    text.lines().filter(|l| !l.trim().is_empty()).filter_map(|l| serde_json::from_str(l).ok()).collect()
}

fn known_match<'a>(known: &'a [Known], prop: &str, rule: &str, detail: &str) -> Option<&'a Known> {
    known.iter().find(|k| k.status == "known" && k.property == prop && k.rule == rule && k.detail_contains.iter().all(|s| detail.contains(s.as_str())))
}

pub fn check(prop: &str, tier: &str) -> i32 {
    let Some(sp) = spec::spec(prop) else {
        eprintln!("unknown or unclaimed property {prop}");
        return 2;
    };
    let batch: u64 = std::env::var("VERIF_SEED").ok().and_then(|s| s.parse().ok()).unwrap_or(1);
    let scale: f64 = std::env::var("VERIF_SCALE").ok().and_then(|s| s.parse().ok()).unwrap_or(1.0);
    let workers: u64 = std::env::var("VERIF_WORKERS").ok().and_then(|s| s.parse().ok()).unwrap_or(16);
    let (n_rel, n_dbg) = if tier == "thorough" { sp.thorough } else { sp.quick };
    let n_rel = (n_rel as f64 * scale) as u64;
    let n_dbg = (n_dbg as f64 * scale) as u64;
    println!("check {prop} tier={tier} VERIF_SEED={batch} runs: {n_rel} release + {n_dbg} debug-assertions, {workers} worker processes");
    let t0 = std::time::Instant::now();
    let rel = run_phase(prop, tier, batch, "rel", n_rel, workers, 0);
    let dbg = run_phase(prop, tier, batch, "dbg", n_dbg, workers, 1_000_000_000);
    // determinism re-check: a sample of runs is repeated in a different process
    let mut mismatches = 0u64;
    let mut rechecked = 0u64;
    for (flavour, ph) in [("rel", &rel), ("dbg", &dbg)] {
        let sample: Vec<&(u64, i64, u64)> = ph.agg.recheck.iter().take(400).collect();
        if sample.is_empty() {
            continue;
        }
        let list: Vec<String> = sample.iter().map(|(i, k, _)| format!("{}:{}", i, k)).collect();
        let out = Command::new(exe(flavour)).args(["rehash", prop, tier, &batch.to_string(), &list.join(",")]).stderr(Stdio::null()).output();
        if let Ok(out) = out {
            let text = String::from_utf8_lossy(&out.stdout);
            let mut got: BTreeMap<(u64, i64), u64> = BTreeMap::new();
            for l in text.lines() {
                if let Some(rest) = l.strip_prefix("HASH ") {
                    let v: Vec<&str> = rest.split(' ').collect();
                    got.insert((v[0].parse().unwrap(), v[1].parse().unwrap()), v[2].parse().unwrap());
                }
            }
            for (i, k, h) in sample {
                rechecked += 1;
                if got.get(&(*i, *k)) != Some(h) {
                    mismatches += 1;
                    eprintln!("HARNESS: nondeterminism: run {i}:{k} ({flavour}) hashed {h} then {:?}", got.get(&(*i, *k)));
                }
            }
        }
    }
    let mut agg = Agg::default();
    let mut viols: Vec<ViolRec> = vec![];
    let mut died: Vec<(String, u64, i64)> = vec![];
    let rel_runs = rel.agg.runs;
    let dbg_runs = dbg.agg.runs;
    for (flavour, ph) in [("rel", rel), ("dbg", dbg)] {
        merge(&mut agg, ph.agg);
        viols.extend(ph.viols);
        died.extend(ph.died.into_iter().map(|(i, k)| (flavour.to_string(), i, k)));
        for (i, k) in ph.hung {
            viols.push(ViolRec { i, k, seed: mix(batch, i), property: prop.to_string(), rule: "hang".into(), detail: "the run made no progress for 180 s (livelock or unbounded loop); the worker was killed".into(), flavour: flavour.to_string() });
        }
    }
    agg.hashes.sort();
    agg.hashes.dedup();
    let distinct = agg.hashes.len() as u64;
    // ---- violations: one representative per (rule, flavour), minimised, replay file, known findings
    let known = load_known();
    let mut exit = 0;
    let mut reported = 0u64;
    let mut known_hits: Vec<String> = vec![];
    let mut harness_errors = mismatches;
    for (flavour, i, k) in died.iter() {
        viols.push(ViolRec { i: *i, k: *k, seed: mix(batch, *i), property: prop.to_string(), rule: "process-died".into(), detail: "the worker process died (abort or stack overflow) during this run".into(), flavour: flavour.clone() });
    }
    let mut classes: BTreeMap<(String, String), ViolRec> = BTreeMap::new();
    for v in viols.iter() {
        if v.property == "HARNESS" {
            harness_errors += 1;
            eprintln!("HARNESS: {} {}", v.rule, v.detail);
            continue;
        }
        *agg.viol_runs.entry(format!("{} ({})", v.rule, v.flavour)).or_insert(0) += 1;
        classes.entry((v.rule.clone(), v.flavour.clone())).or_insert_with(|| v.clone());
    }
    let _ = std::fs::create_dir_all(format!("{}/replays", root()));
    for ((rule, flavour), v) in classes.iter() {
        let mut plan = gen_for(prop, v.seed, tier);
        if v.k >= 0 {
            plan.knobs.crash_at = Some(v.k as u64);
        }
        let target = (prop.to_string(), rule.clone());
        let in_child = rule == "process-died" || rule == "hang" || flavour != current_flavour();
        let fl = flavour.clone();
        let runner = move |p: &Plan| -> Vec<(String, String)> {
            if in_child {
                run_in_child(p, &fl).into_iter().map(|(pp, r)| if r == "process-died" { (target_prop(&pp, &fl), r) } else { (pp, r) }).collect()
            } else {
                sigs_of(&run_any(p, false))
            }
        };
        fn target_prop(p: &str, _f: &str) -> String {
            p.to_string()
        }
        let runner2 = |p: &Plan| -> Vec<(String, String)> {
            let mut s = runner(p);
            for x in s.iter_mut() {
                if x.0 == "*" {
                    x.0 = prop.to_string();
                }
            }
            s
        };
        // a violation seen in the other build flavour is minimised by that flavour's binary, in
        // one process; only runs that kill or stall the process need a child per candidate
        let other = if rule != "process-died" && rule != "hang" && flavour != current_flavour() { minimise_in_flavour(&plan, flavour, prop, rule) } else { None };
        let mut sh = Shrinker { target: target.clone(), run: &runner2, budget: if rule == "hang" { 0 } else if in_child { 300 } else { 3000 }, used: 0 };
        let reproduced = match &other {
            Some((r, ..)) => *r,
            None => rule != "hang" && runner2(&plan).contains(&target),
        };
        let min = match &other {
            Some((_, p, ..)) => p.clone(),
            None => if reproduced { sh.minimise(&plan) } else { plan.clone() },
        };
        // final run of the minimised plan, to record its detail and trace hash
        let (detail, hash) = if let Some((_, _, d, h)) = &other {
            (d.clone().unwrap_or(v.detail.clone()), *h)
        } else if in_child {
            (v.detail.clone(), 0)
        } else {
            let out = run_any(&min, false);
            let d = out.violations.iter().find(|x| x.property == prop && x.rule == *rule).map(|x| x.detail.clone()).unwrap_or(v.detail.clone());
            (d, out.trace_hash)
        };
        if let Some(kf) = known_match(&known, prop, rule, &detail) {
            let line = format!("KNOWN-FINDING: property={} {} [{}]", prop, kf.what, rule);
            if !known_hits.contains(&line) {
                println!("{}", line);
                known_hits.push(line);
            }
            continue;
        }
        let path = format!("{}/replays/{}-{}-{}-{}.json", root(), prop, rule, flavour, v.seed);
        let rp = Replay { property: prop.to_string(), rule: rule.clone(), detail: detail.clone(), flavour: flavour.clone(), seed: v.seed, tier: tier.to_string(), minimised: reproduced, plan: min, trace_hash: hash };
        std::fs::write(&path, serde_json::to_string_pretty(&rp).unwrap()).unwrap();
        println!("VIOLATION property={} replay={}", prop, path);
        println!("  rule={} flavour={} seed={} : {}", rule, flavour, v.seed, detail);
        if !reproduced {
            println!("  (note: the violation did not reproduce in the orchestrator process; replay file holds the unminimised plan)");
        }
        reported += 1;
        exit = 1;
    }
    let wall = t0.elapsed().as_secs_f64();
    write_evidence(prop, tier, batch, &sp, &agg, distinct, rel_runs, dbg_runs, wall, reported, &known_hits, rechecked, mismatches);
    println!(
        "{prop}: {} runs ({} histories, {} non-trivial, {} distinct non-trivial) in {:.1}s; violations reported: {}; violating runs: {:?}; known findings: {}; cut short by other properties: {:?}",
        agg.runs,
        agg.histories,
        agg.triggered,
        distinct,
        wall,
        reported,
        agg.viol_runs,
        known_hits.len(),
        agg.cut_short
    );
    for (k, v) in agg.cut_short_example.iter() {
        if !k.contains("ran-outside-cones-transient") {
            println!("  other property: {} e.g. {}", k, v);
        }
    }
    if harness_errors > 0 {
        eprintln!("HARNESS ERROR: {harness_errors} harness-level problems (nondeterminism or dead run threads)");
        return 2;
    }
    exit
}

pub fn current_flavour() -> &'static str {
    if cfg!(debug_assertions) {
        "dbg"
    } else {
        "rel"
    }
}

#[allow(clippy::too_many_arguments)]
fn write_evidence(prop: &str, tier: &str, batch: u64, sp: &spec::Spec, agg: &Agg, distinct: u64, rel_runs: u64, dbg_runs: u64, wall: f64, violations: u64, known_hits: &[String], rechecked: u64, mismatches: u64) {
    let per_hour = if wall > 0.0 { (agg.runs as f64 / wall * 3600.0) as u64 } else { 0 };
    let zero_probes: Vec<&String> = agg.probes.iter().filter(|(_, v)| **v == 0).map(|(k, _)| k).collect();
    let ev = serde_json::json!({
        "property_id": prop,
        "tier": tier,
        "seed": batch,
        "level": sp.level,
        "coverage": {
            "evaluations": agg.runs,
            "distinct_nontrivial": distinct,
            "rule": sp.rule,
            "samples": agg.samples,
            "histories": agg.histories,
            "nontrivial_runs": agg.triggered,
            "runs_release": rel_runs,
            "runs_debug_assertions": dbg_runs,
            "runs_per_hour": per_hour,
            "seeds_per_hour": per_hour,
            "simulated_time": {
                "stabilise_rounds": agg.cov.get("rounds").copied().unwrap_or(0),
                "top_level_actions": agg.actions,
                "callback_invocations": agg.cov.get("callback_invocations").copied().unwrap_or(0),
                "trace_events": agg.events,
            },
            "fault_kinds_fired": agg.faults,
            "oracle_counters": agg.cov,
            "reach_probes": agg.probes,
            "reach_probes_stuck_at_zero": zero_probes,
            "distinct_measure": "FNV hash of the sequence of recomputed node kinds per round over the whole run (recompute-order shape), counted over runs that met the non-trivial rule",
            "cut_short_by_other_properties": agg.cut_short,
            "cut_short_examples": agg.cut_short_example,
            "violating_runs_by_rule": agg.viol_runs,
            "determinism_recheck": { "runs_repeated_in_another_process": rechecked, "mismatches": mismatches },
            "known_findings_seen": known_hits,
            "components": {
                "real": ["incremental (state, node, heaps, scopes, vars, observers, handlers, cutoffs, expert nodes, weak memoisation)", "incremental-map"],
                "stubbed": [],
                "statically_disabled": ["tracing events (max_level_off)"],
                "simulated_clients": ["top-level driver", "every closure the engine calls back (instrumented, plan-driven re-entrant effects)"]
            }
        },
        "assumptions": [
            "programs are drawn from the finite combinator grammar of DESIGN.md 3.2 over the value domain -3..=8",
            "the reference model (sim/src/model*.rs) is trusted; it follows the engine's recompute events and judges each one",
            "hooks compiled in with --cfg cormacrelf_incremental_rs_verif are observational unless a seed/chooser is installed"
        ],
        "wall_s": wall,
        "violations": violations,
    });
    let _ = std::fs::create_dir_all(format!("{}/evidence", root()));
    std::fs::write(format!("{}/evidence/{}.json", root(), prop), serde_json::to_string_pretty(&ev).unwrap()).unwrap();
}

/// `simcheck replay <file>`: re-executes the stored plan; exit 1 + VIOLATION line if it reproduces.
pub fn replay(path: &str) -> i32 {
    let Ok(text) = std::fs::read_to_string(path) else {
        eprintln!("cannot read {path}");
        return 2;
    };
    let Ok(rp) = serde_json::from_str::<Replay>(&text) else {
        eprintln!("malformed replay file {path}");
        return 2;
    };
    if rp.flavour != current_flavour() {
        // re-exec in the right flavour
        let st = Command::new(exe(&rp.flavour)).args(["replay", path]).status();
        return st.ok().and_then(|s| s.code()).unwrap_or(2);
    }
    if rp.rule == "process-died" || rp.rule == "hang" {
        let sigs = run_in_child(&rp.plan, &rp.flavour);
        if sigs.iter().any(|(_, r)| *r == rp.rule) {
            println!("VIOLATION property={} replay={}", rp.property, path);
            println!("  rule={}: the process running this plan failed the same way again", rp.rule);
            return 1;
        }
        println!("replay of {path}: the process did not die this time");
        return 0;
    }
    let out = run_any(&rp.plan, true);
    let hit = out.violations.iter().find(|v| v.property == rp.property && v.rule == rp.rule);
    match hit {
        Some(v) => {
            println!("VIOLATION property={} replay={}", rp.property, path);
            println!("  rule={} : {}", v.rule, v.detail);
            if rp.trace_hash != 0 && out.trace_hash != rp.trace_hash {
                eprintln!("HARNESS ERROR: replay reproduced the violation but the trace hash differs ({} vs recorded {})", out.trace_hash, rp.trace_hash);
                return 2;
            }
            if std::env::var("VERIF_SHOW_TRACE").is_ok() {
                for (i, e) in out.trace.unwrap().iter().enumerate() {
                    println!("{i}: {:?}", e);
                }
            }
            1
        }
        None => {
            println!("replay of {path}: violation {} {} did not reproduce (other violations: {:?})", rp.property, rp.rule, sigs_of(&out));
            0
        }
    }
}

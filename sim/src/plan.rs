//! Plans: programs and histories as data. Operands are indices taken modulo the population that
//! exists when the action executes, so deleting or reordering actions always leaves a
//! meaningful plan (this is what makes minimisation work).

use serde::{Deserialize, Serialize};

/// All values live in -3..=8 so that many results coincide (cutoffs matter).
pub fn norm(x: i64) -> i64 {
    (x.wrapping_add(3)).rem_euclid(12) - 3
}

#[derive(Serialize, Deserialize, Clone, Copy, Debug, PartialEq, Eq, Hash, PartialOrd, Ord)]
pub enum MV {
    I(i64),
    P(i64, i64),
    /// ((a, b), c)
    Q(i64, i64, i64),
}
impl MV {
    pub fn i(self) -> i64 {
        match self {
            MV::I(x) => x,
            MV::P(a, _) => a,
            MV::Q(a, _, _) => a,
        }
    }
}

#[derive(Serialize, Deserialize, Clone, Copy, Debug, PartialEq, Eq)]
pub enum F1 {
    Id,
    Half,
    Mod3,
    Abs,
    Neg,
    Inc,
    Konst(i64),
    AddK(i64),
}
impl F1 {
    pub fn ap(self, x: i64) -> i64 {
        norm(match self {
            F1::Id => x,
            F1::Half => x.div_euclid(2),
            F1::Mod3 => x.rem_euclid(3),
            F1::Abs => x.abs(),
            F1::Neg => -x,
            F1::Inc => x + 1,
            F1::Konst(k) => k,
            F1::AddK(k) => x + k,
        })
    }
}

#[derive(Serialize, Deserialize, Clone, Copy, Debug, PartialEq, Eq)]
pub enum F2 {
    Add,
    Min,
    Max,
    /// 3a + b: not commutative, so argument or fold order mistakes show
    Lin,
    Fst,
    Snd,
}
impl F2 {
    pub fn ap(self, a: i64, b: i64) -> i64 {
        norm(match self {
            F2::Add => a + b,
            F2::Min => a.min(b),
            F2::Max => a.max(b),
            F2::Lin => 3 * a + b,
            F2::Fst => a,
            F2::Snd => b,
        })
    }
    /// left fold over the arguments, starting from the first
    pub fn reduce(self, xs: &[i64]) -> i64 {
        let mut acc = xs[0];
        for x in &xs[1..] {
            acc = self.ap(acc, *x);
        }
        norm(acc)
    }
    pub fn fold(self, init: i64, xs: &[i64]) -> i64 {
        let mut acc = init;
        for x in xs {
            acc = self.ap(acc, *x);
        }
        norm(acc)
    }
}

#[derive(Serialize, Deserialize, Clone, Copy, Debug, PartialEq, Eq)]
pub enum CutoffSpec {
    Default,
    Never,
    Always,
    /// `Cutoff::Fn` with a plain function comparing `x div k` classes (k = 1 is equality)
    Fn(u8),
    /// `Cutoff::FnBoxed` closure, same classes
    Boxed(u8),
}
impl CutoffSpec {
    pub fn only_suppresses_equal(self) -> bool {
        matches!(
            self,
            CutoffSpec::Default | CutoffSpec::Never | CutoffSpec::Fn(1) | CutoffSpec::Boxed(1)
        )
    }
    /// model: should `old -> new` be cut off (not propagated)?
    pub fn cuts(self, old: MV, new: MV) -> bool {
        match self {
            CutoffSpec::Default => old == new,
            CutoffSpec::Never => false,
            CutoffSpec::Always => true,
            CutoffSpec::Fn(k) | CutoffSpec::Boxed(k) => class_eq(k, old, new),
        }
    }
}
pub fn class_eq(k: u8, a: MV, b: MV) -> bool {
    let k = k.max(1) as i64;
    match (a, b) {
        (MV::I(x), MV::I(y)) => x.div_euclid(k) == y.div_euclid(k),
        (MV::P(x1, x2), MV::P(y1, y2)) => {
            x1.div_euclid(k) == y1.div_euclid(k) && x2.div_euclid(k) == y2.div_euclid(k)
        }
        (MV::Q(x1, x2, x3), MV::Q(y1, y2, y3)) => {
            x1.div_euclid(k) == y1.div_euclid(k) && x2.div_euclid(k) == y2.div_euclid(k) && x3.div_euclid(k) == y3.div_euclid(k)
        }
        _ => false,
    }
}

#[derive(Serialize, Deserialize, Clone, Copy, Debug, PartialEq, Eq)]
pub enum WriteOp {
    Set(i64),
    /// second component for pair vars (same as Set for plain vars)
    SetB(i64),
    Update(F1),
    Modify(F1),
    Replace(i64),
    ReplaceWith(F1),
}
impl WriteOp {
    pub fn apply(self, cur: MV) -> MV {
        match cur {
            MV::I(x) => MV::I(match self {
                WriteOp::Set(v) | WriteOp::SetB(v) | WriteOp::Replace(v) => norm(v),
                WriteOp::Update(f) | WriteOp::Modify(f) | WriteOp::ReplaceWith(f) => f.ap(x),
            }),
            MV::Q(..) => cur,
            MV::P(a, b) => match self {
                WriteOp::Set(v) | WriteOp::Replace(v) => MV::P(norm(v), b),
                WriteOp::SetB(v) => MV::P(a, norm(v)),
                WriteOp::Update(f) | WriteOp::Modify(f) | WriteOp::ReplaceWith(f) => {
                    MV::P(f.ap(a), b)
                }
            },
        }
    }
    pub fn returns_old(self) -> bool {
        matches!(self, WriteOp::Replace(_) | WriteOp::ReplaceWith(_))
    }
}

/// Re-entrant API calls made from inside a callback.
#[derive(Serialize, Deserialize, Clone, Debug, PartialEq)]
pub enum Effect {
    Write { var: usize, op: WriteOp },
    /// write `f(first argument)` to the var
    WriteArg { var: usize, f: F1 },
    GetVar { var: usize },
    ReadObs { obs: usize },
    Observe { node: usize },
    /// observe a node and subscribe to the new observer at once (from inside a callback)
    ObserveSub { node: usize },
    DropObs { obs: usize, clone: usize },
    Disallow { obs: usize },
    /// disallow the observer this handler belongs to (handlers only)
    DisallowSelf,
    Subscribe { obs: usize, h: Box<HandlerSpec> },
    /// subscribe to the observer this handler belongs to (handlers only)
    SubscribeSelf { h: Box<HandlerSpec> },
    Unsub { obs: usize, sub: usize },
    /// unsubscribe this very subscription through its own observer (handlers only)
    UnsubSelf,
    /// unsubscribe a sibling subscription of the same observer (handlers only)
    UnsubSibling { k: usize },
    StateUnsub { sub: usize },
    DropVar { var: usize },
    /// deferred write to a var immediately followed by dropping its last handle
    WriteThenDropVar { var: usize, op: WriteOp },
    DropNode { node: usize },
    IsStable,
    /// misuse (C19 only)
    NestedStabilise,
}

#[derive(Serialize, Deserialize, Clone, Debug, PartialEq)]
pub struct EffectSpec {
    /// fires on these invocation numbers (0-based) of the callback that carries it
    pub on: Vec<u32>,
    pub eff: Effect,
}

#[derive(Serialize, Deserialize, Clone, Debug, PartialEq, Default)]
pub struct HandlerSpec {
    pub fx: Vec<EffectSpec>,
}

#[derive(Serialize, Deserialize, Clone, Copy, Debug, PartialEq, Eq)]
pub enum OuterSel {
    /// any clean top-level scalar node
    Any(usize),
    /// an ancestor (input, transitively) of the bind's left-hand side
    LhsAncestor(usize),
    /// a clean top-level node that depends on an ancestor of the left-hand side ("sibling")
    Sibling(usize),
    /// a top-level-held scalar node that is already invalid when the bind is created (a node
    /// exported by an earlier run of some bind): a closure returning it, or building on it,
    /// yields an invalid right-hand side
    Invalid(usize),
    /// the k-th most recently created clean top-level scalar node (0 = the last one)
    Recent(usize),
}

#[derive(Serialize, Deserialize, Clone, Debug, PartialEq)]
pub enum BodyExpr {
    Outer(usize),
    /// constant `c + l`
    Const(i64),
    /// `e.map(|x| f(l, x))`, closure captures `l`
    Map(Box<BodyExpr>, F2),
    /// the same node through another constructor: 0 `map_cyclic`, 1 `enumerate`, 2 `pipe` + `map`
    MapVia(Box<BodyExpr>, F2, u8),
    /// `e.map(|x| (x mod 3, x div 2)).map_ref(|p| &p.<proj>)`: a projection built inside the closure
    Ref(Box<BodyExpr>, u8),
    /// `e.map_with_old(..)` built inside the closure
    WithOld(Box<BodyExpr>, F1),
    Map2(Box<BodyExpr>, Box<BodyExpr>, F2),
    /// a var created inside the body (`top` = created with `state.var`, else current scope)
    NewVar { v: i64, top: bool },
    Fold(Vec<BodyExpr>, F2),
    Bind(Box<BodyExpr>, Box<BodySpec>),
    /// call memoised function `m` with key `(k + l) mod 3`
    Memo { m: usize, k: i64 },
    /// memoise a constructor *inside* the closure (its nodes belong to this run of the bind)
    /// and call it with key `(k + l) mod 3`
    LocalMemo { k: i64 },
}

#[derive(Serialize, Deserialize, Clone, Debug, PartialEq)]
pub struct BodySpec {
    /// alternative `l mod alts.len()` is built
    pub alts: Vec<BodyExpr>,
    /// outer nodes captured by the closure; `BodyExpr::Outer(i)` is `outers[i mod len]`
    pub outers: Vec<OuterSel>,
    /// hand the nodes created by each run to the driver (observable from the top level)
    pub export: bool,
    /// create and immediately drop an extra node inside the closure
    pub temp: bool,
    /// an extra expression built by the closure that is not part of its result but is handed to
    /// the driver (observable from the top level)
    #[serde(default)]
    pub side: Option<Box<BodyExpr>>,
    /// bit 0: build the bind with `binds` (closure also receives the state)
    #[serde(default)]
    pub via: u8,
    pub fx: Vec<EffectSpec>,
}

#[derive(Serialize, Deserialize, Clone, Copy, Debug, PartialEq, Eq)]
pub enum Pool {
    /// scalar nodes
    I,
    /// pair nodes
    P,
    /// ((i64, i64), i64) nodes
    Q,
    Any,
}

#[derive(Serialize, Deserialize, Clone, Debug, PartialEq)]
pub enum Action {
    NewVar { init: i64 },
    NewVarP { a: i64, b: i64 },
    NewConst { v: i64 },
    /// `via`: 0 `map`, 1 `map_cyclic`, 2 `enumerate`, 3 `pipe` + `map`
    NewMap { src: usize, f: F1, fx: Vec<EffectSpec>, #[serde(default)] via: u8 },
    /// pair -> scalar
    NewMapP { src: usize, f: F2 },
    /// scalar -> pair: (x mod 3, x div 2)
    NewMapIP { src: usize },
    /// map2..map6
    NewMapN { srcs: Vec<usize>, f: F2, fx: Vec<EffectSpec> },
    NewFold { srcs: Vec<usize>, init: i64, f: F2 },
    NewZip { a: usize, b: usize },
    NewMapRef { src: usize, proj: u8 },
    /// pair node zipped with a scalar node: ((a, b), c)
    NewZipQ { a: usize, b: usize },
    /// map_ref projecting the pair out of a ((a, b), c) node (so map_ref nodes can be chained)
    NewMapRefQ { src: usize },
    NewMapWithOld { src: usize, f: F1 },
    NewDependOn { a: usize, b: usize, pool_b: Pool },
    NewBind { lhs: usize, body: BodySpec },
    SetCutoff { node: usize, pool: Pool, c: CutoffSpec },
    Write { var: usize, op: WriteOp },
    Observe { node: usize, pool: Pool },
    CloneObs { obs: usize },
    DropObs { obs: usize, clone: usize },
    Disallow { obs: usize },
    Subscribe { obs: usize, h: HandlerSpec },
    Unsub { obs: usize, sub: usize },
    StateUnsub { sub: usize },
    OnUpdate { node: usize, pool: Pool },
    DropNode { node: usize, pool: Pool },
    DropVar { var: usize },
    Memoize { src: usize },
    MemoCall { m: usize, key: i64 },
    DropMemo { m: usize },
    Stabilise,
    StabiliseUntilStable { max: u32 },
    IsStable,
    SetMaxHeight { n: usize },
    /// drop every handle and the state in a permutation derived from `perm`
    Teardown { perm: u64, stabilise_between: bool },
    /// drop all clones of the state while handles are alive
    DropState,
    /// action of one of the smaller engines (expert, map, limits)
    X(crate::xplan::XAct),
}

#[derive(Serialize, Deserialize, Clone, Debug, PartialEq, Default)]
pub struct Knobs {
    pub hash_seed: u64,
    /// Some(seed): in-bucket tie-break of the recompute heap is chosen by a PRNG
    pub tie_break: Option<u64>,
    /// None: library default (128)
    pub max_height: Option<usize>,
    /// panic at the k-th user-function invocation that happens inside a stabilise call
    pub crash_at: Option<u64>,
    /// read every observer after every action (on by default; off in some swarm runs)
    pub dense_reads: bool,
    /// run the engine audit after every action
    pub audit: bool,
    /// the property being checked: violations of *other* properties do not end the run early
    /// (panics always do). Empty = any violation ends the run.
    #[serde(default)]
    pub stop_on: String,
}

#[derive(Serialize, Deserialize, Clone, Debug, PartialEq)]
pub struct Plan {
    pub engine: String,
    pub actions: Vec<Action>,
    pub knobs: Knobs,
    /// plan data of the non-core engines (expert, map, limits)
    #[serde(default)]
    pub extra: serde_json::Value,
}

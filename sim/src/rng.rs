//! Own PRNG (SplitMix64 seeding + xoshiro256**), so that plans never depend on the version of an
//! external crate. One integer decides everything.

#[derive(Clone, Debug)]
pub struct Rng {
    s: [u64; 4],
}

pub fn splitmix(x: &mut u64) -> u64 {
    *x = x.wrapping_add(0x9e37_79b9_7f4a_7c15);
    let mut z = *x;
    z = (z ^ (z >> 30)).wrapping_mul(0xbf58_476d_1ce4_e5b9);
    z = (z ^ (z >> 27)).wrapping_mul(0x94d0_49bb_1331_11eb);
    z ^ (z >> 31)
}

/// Mixes a batch seed and an index into a run seed.
pub fn mix(a: u64, b: u64) -> u64 {
    let mut x = a ^ b.wrapping_mul(0xd6e8_feb8_6659_fd93);
    let r = splitmix(&mut x);
    splitmix(&mut x) ^ r.rotate_left(17)
}

impl Rng {
    pub fn new(seed: u64) -> Self {
        let mut x = seed;
        let s = [
            splitmix(&mut x),
            splitmix(&mut x),
            splitmix(&mut x),
            splitmix(&mut x),
        ];
        Rng { s }
    }
    /// Independent stream `k` derived from the same seed.
    pub fn stream(seed: u64, k: u64) -> Self {
        Rng::new(mix(seed, k.wrapping_add(0x5151)))
    }
    pub fn next(&mut self) -> u64 {
        let result = self.s[1].wrapping_mul(5).rotate_left(7).wrapping_mul(9);
        let t = self.s[1] << 17;
        self.s[2] ^= self.s[0];
        self.s[3] ^= self.s[1];
        self.s[1] ^= self.s[2];
        self.s[0] ^= self.s[3];
        self.s[2] ^= t;
        self.s[3] = self.s[3].rotate_left(45);
        result
    }
    /// uniform in 0..n (n > 0)
    pub fn below(&mut self, n: usize) -> usize {
        debug_assert!(n > 0);
        (self.next() % (n as u64)) as usize
    }
    /// uniform in lo..=hi
    pub fn range(&mut self, lo: i64, hi: i64) -> i64 {
        lo + (self.next() % ((hi - lo + 1) as u64)) as i64
    }
    /// true with probability num/den
    pub fn chance(&mut self, num: u32, den: u32) -> bool {
        (self.next() % den as u64) < num as u64
    }
    pub fn pick<'a, T>(&mut self, xs: &'a [T]) -> &'a T {
        &xs[self.below(xs.len())]
    }
    /// index chosen by weights
    pub fn weighted(&mut self, weights: &[u32]) -> usize {
        let total: u64 = weights.iter().map(|w| *w as u64).sum();
        debug_assert!(total > 0);
        let mut x = self.next() % total;
        for (i, w) in weights.iter().enumerate() {
            if x < *w as u64 {
                return i;
            }
            x -= *w as u64;
        }
        weights.len() - 1
    }
    pub fn shuffle<T>(&mut self, xs: &mut [T]) {
        for i in (1..xs.len()).rev() {
            let j = self.below(i + 1);
            xs.swap(i, j);
        }
    }
}

/// FNV-1a over bytes; used for trace hashes and coverage hashes (never RandomState).
#[derive(Clone, Copy)]
pub struct Fnv(pub u64);
impl Fnv {
    pub fn new() -> Self {
        Fnv(0xcbf2_9ce4_8422_2325)
    }
    pub fn byte(&mut self, b: u8) {
        self.0 = (self.0 ^ b as u64).wrapping_mul(0x0000_0100_0000_01b3);
    }
    pub fn u64(&mut self, x: u64) {
        for b in x.to_le_bytes() {
            self.byte(b);
        }
    }
    pub fn i64(&mut self, x: i64) {
        self.u64(x as u64)
    }
    pub fn str(&mut self, s: &str) {
        for b in s.as_bytes() {
            self.byte(*b);
        }
        self.byte(0xff);
    }
    pub fn finish(&self) -> u64 {
        let mut x = self.0;
        splitmix(&mut x)
    }
}

//! One simulated run of the core engine: executes a plan on a fresh thread (node and observer
//! ids are thread-local counters, so every run starts from id 1), with every source of
//! nondeterminism pinned by the plan's knobs.

use std::cell::RefCell;
use std::collections::BTreeMap;
use std::panic::{catch_unwind, AssertUnwindSafe};
use std::rc::Rc;

use crate::exec::*;
use crate::model::Coverage;
use crate::plan::*;
use crate::rng::{Fnv, Rng};
use crate::trace::*;
use crate::world::*;

thread_local! {
    pub static LAST_PANIC: RefCell<Option<String>> = const { RefCell::new(None) };
}

pub fn install_panic_hook() {
    std::panic::set_hook(Box::new(|info| {
        let loc = info.location().map(|l| format!("{}:{}", l.file(), l.line())).unwrap_or_default();
        let msg = if let Some(s) = info.payload().downcast_ref::<&str>() {
            s.to_string()
        } else if let Some(s) = info.payload().downcast_ref::<String>() {
            s.clone()
        } else if info.payload().downcast_ref::<Injected>().is_some() {
            "<injected>".to_string()
        } else {
            "<non-string panic>".to_string()
        };
        // keep only the first line: messages may embed Debug dumps with addresses
        let first = msg.lines().next().unwrap_or("").to_string();
        LAST_PANIC.with(|p| *p.borrow_mut() = Some(format!("{} @ {}", first, loc)));
    }));
}

#[derive(Clone, Debug, Default)]
pub struct RunOutput {
    pub violations: Vec<Violation>,
    pub cov: Coverage,
    pub probes: Vec<(String, u64)>,
    pub faults: BTreeMap<String, u64>,
    pub trace_hash: u64,
    pub shape_hash: u64,
    pub state_hash: u64,
    pub events: u64,
    pub actions: u64,
    pub trace: Option<Vec<Ev>>,
    pub injected_panic: Option<u64>,
    pub crash_points: u64,
    pub panics: Vec<String>,
}

pub fn panic_message(p: &Box<dyn std::any::Any + Send>) -> (String, bool) {
    let injected = p.downcast_ref::<Injected>().is_some();
    let msg = LAST_PANIC.with(|l| l.borrow_mut().take()).unwrap_or_else(|| "<unknown>".into());
    (msg, injected)
}

/// The engine's audit (hook H1) plus the public counters, which must agree with it.
pub fn full_audit(st: &incremental::IncrState, after_stabilise: bool) -> Vec<String> {
    let mut lines = st.verif_audit(after_stabilise);
    let stats = st.stats();
    let needed = st.verif_snapshot().nodes.iter().filter(|n| n.necessary).count();
    if stats.necessary != needed {
        lines.push(format!("stats().necessary = {} but {} live nodes are necessary", stats.necessary, needed));
    }
    if stats.became_necessary < stats.became_unnecessary || stats.became_necessary - stats.became_unnecessary != stats.necessary {
        lines.push(format!(
            "stats(): became_necessary {} - became_unnecessary {} != necessary {}",
            stats.became_necessary, stats.became_unnecessary, stats.necessary
        ));
    }
    lines
}

/// Reads every live observer handle and variable, runs the audit.
fn probe_world(w: &Rc<World>, knobs: &Knobs, after_stabilise: bool) {
    if w.state.borrow().is_none() {
        return;
    }
    if knobs.dense_reads {
        let n = w.obs.borrow().len();
        for oid in 0..n {
            let m = w.obs.borrow()[oid].clones.len();
            for c in 0..m {
                let res = {
                    let obs = w.obs.borrow();
                    obs[oid].clones[c].as_ref().map(|h| h.read())
                };
                if let Some(res) = res {
                    w.log(Ev::Read { oid, clone: c, res });
                }
            }
        }
        let nv = w.vars.borrow().len();
        for vid in 0..nv {
            let val = {
                let vars = w.vars.borrow();
                vars[vid].h.as_ref().map(|h| match h {
                    VarH::I(v) => MV::I(v.get()),
                    VarH::P(v) => v.get().mv(),
                })
            };
            if let Some(val) = val {
                w.log(Ev::VarGet { vid, val });
            }
        }
    }
    if knobs.audit {
        let st = w.state();
        if let Some(st) = st {
            let lines = full_audit(&st, after_stabilise);
            if w.dot_reads.get() && after_stabilise {
                let _ = st.weak().save_dot_to_string();
            }
            w.log(Ev::Audit { lines, after_stabilise });
        }
    }
}

enum Item {
    Node(Hid),
    Var(usize),
    Obs(usize, usize),
    Memo(usize),
    State,
}

/// Drops every handle and the state in the permutation derived from `perm`.
pub fn teardown(w: &Rc<World>, perm: u64, stabilise_between: bool) {
    // stabilises between drops can run callbacks that create new handles: sweep until none left
    for sweep in 0..8u64 {
        if !teardown_sweep(w, perm.wrapping_add(sweep), stabilise_between && sweep == 0) {
            break;
        }
    }
}

fn teardown_sweep(w: &Rc<World>, perm: u64, stabilise_between: bool) -> bool {
    let mut items: Vec<Item> = vec![];
    for (i, n) in w.nodes.borrow().iter().enumerate() {
        if n.h.is_some() {
            items.push(Item::Node(i));
        }
    }
    for (i, v) in w.vars.borrow().iter().enumerate() {
        if v.h.is_some() {
            items.push(Item::Var(i));
        }
    }
    for (i, o) in w.obs.borrow().iter().enumerate() {
        for (c, h) in o.clones.iter().enumerate() {
            if h.is_some() {
                items.push(Item::Obs(i, c));
            }
        }
    }
    for (i, m) in w.memos.borrow().iter().enumerate() {
        if m.f.is_some() {
            items.push(Item::Memo(i));
        }
    }
    if w.state.borrow().is_some() {
        items.push(Item::State);
    }
    if items.is_empty() {
        return false;
    }
    let mut rng = Rng::new(perm);
    rng.shuffle(&mut items);
    w.log(Ev::Note(format!("teardown of {} handles", items.len())));
    let poisoned = w.model.borrow().poisoned;
    for it in items {
        let r = catch_unwind(AssertUnwindSafe(|| match it {
            Item::Node(h) => {
                let x = w.nodes.borrow_mut()[h].h.take();
                w.log(Ev::Act { ctx: Ctx::Top, act: Act::DropNode { hid: h } });
                drop(x);
            }
            Item::Var(v) => {
                let x = w.vars.borrow_mut()[v].h.take();
                w.log(Ev::Act { ctx: Ctx::Top, act: Act::DropVar { vid: v } });
                drop(x);
            }
            Item::Obs(o, c) => {
                let x = w.obs.borrow_mut()[o].clones[c].take();
                w.log(Ev::Act { ctx: Ctx::Top, act: Act::DropObs { oid: o, clone: c } });
                drop(x);
            }
            Item::Memo(m) => {
                let x = w.memos.borrow_mut()[m].f.take();
                w.log(Ev::Act { ctx: Ctx::Top, act: Act::DropMemo { m } });
                drop(x);
            }
            Item::State => {
                let x = w.state.borrow_mut().take();
                w.log(Ev::Act { ctx: Ctx::Top, act: Act::DropState });
                drop(x);
            }
        }));
        if let Err(p) = r {
            let (msg, injected) = panic_message(&p);
            w.trace.borrow_mut().push(Ev::Panic { msg: format!("during teardown: {msg}"), injected, ctx: Ctx::Top });
            w.model.borrow_mut().violations.push(Violation {
                property: "C12",
                rule: "drop-panicked",
                at: w.trace.borrow().len() - 1,
                detail: format!("dropping a handle panicked: {msg}"),
            });
        }
        if stabilise_between && !poisoned && rng.chance(1, 3) {
            if let Some(st) = w.state() {
                drop(st);
                let r = catch_unwind(AssertUnwindSafe(|| do_stabilise(w)));
                if let Err(p) = r {
                    let (msg, _) = panic_message(&p);
                    w.trace.borrow_mut().push(Ev::Panic { msg: format!("stabilise during teardown: {msg}"), injected: false, ctx: Ctx::Top });
                    w.model.borrow_mut().violations.push(Violation {
                        property: "C12",
                        rule: "stabilise-during-teardown-panicked",
                        at: w.trace.borrow().len() - 1,
                        detail: format!("stabilise between drops panicked: {msg}"),
                    });
                    break;
                }
            }
        }
    }
    true
}

/// After a complete teardown nothing may be left alive.
fn leak_check(w: &Rc<World>) {
    let mut leaked_nodes = vec![];
    for (i, n) in w.nodes.borrow().iter().enumerate() {
        if n.weak.strong_count() != 0 {
            leaked_nodes.push(i);
        }
    }
    let mut leaked_closures = vec![];
    for (i, d) in w.tokens.dropped.borrow().iter().enumerate() {
        if !*d {
            leaked_closures.push(w.tokens.owner.borrow()[i]);
        }
    }
    if !leaked_nodes.is_empty() || !leaked_closures.is_empty() {
        let at = w.trace.borrow().len();
        let kinds: Vec<String> = leaked_nodes.iter().map(|h| format!("{}:{}", h, crate::model_step::kind_name(&w.nodes.borrow()[*h].rk))).collect();
        w.model.borrow_mut().violations.push(Violation {
            property: "C12",
            rule: "leak-after-teardown",
            at,
            detail: format!("after dropping every handle and the state, nodes {:?} are still alive and closures of {:?} were not released", kinds, leaked_closures),
        });
    }
}

pub fn fault_counts(trace: &[Ev]) -> BTreeMap<String, u64> {
    let mut m: BTreeMap<String, u64> = BTreeMap::new();
    let mut bump = |k: &str| *m.entry(k.to_string()).or_insert(0) += 1;
    for ev in trace {
        match ev {
            Ev::Act { ctx, act } => {
                let cb = *ctx != Ctx::Top;
                match act {
                    Act::Write { .. } if ctx.in_propagation() => bump("reentrant_write_deferred"),
                    Act::Write { .. } if ctx.in_handler() => bump("reentrant_write_handler"),
                    Act::ReadObs { .. } | Act::GetVar { .. } if cb => bump("reentrant_read"),
                    Act::Subscribe { .. } | Act::Unsub { .. } | Act::StateUnsub { .. } if cb => bump("reentrant_sub"),
                    Act::Observe { .. } if cb => bump("reentrant_observe"),
                    Act::DropObs { .. } if cb => bump("drop_handle_in_callback"),
                    Act::DropObs { .. } | Act::DropNode { .. } | Act::DropVar { .. } | Act::DropMemo { .. } => bump("drop_handle"),
                    Act::Disallow { .. } if cb => bump("disallow_in_callback"),
                    Act::Disallow { .. } => bump("disallow"),
                    Act::SetMaxHeight { .. } => bump("reconfigure"),
                    Act::DropState => bump("state_drop"),
                    _ => {}
                }
            }
            Ev::Panic { injected: true, .. } => bump("panic"),
            _ => {}
        }
    }
    m
}

pub fn hash_trace(trace: &[Ev]) -> u64 {
    let mut h = Fnv::new();
    for ev in trace {
        h.str(&format!("{:?}", ev));
    }
    h.finish()
}

thread_local! {
    static IN_RUNNER: std::cell::Cell<bool> = const { std::cell::Cell::new(false) };
}

/// Runs `f` on a dedicated runner thread with a large stack. Inside it, `run_plan` executes
/// plans directly on that thread (the engine's thread-local id counters are reset before every
/// run, hook H6), which avoids a thread spawn per run.
pub fn on_runner_thread<R: Send + 'static>(f: impl FnOnce() -> R + Send + 'static) -> std::thread::Result<R> {
    std::thread::Builder::new()
        .stack_size(64 << 20)
        .spawn(move || {
            IN_RUNNER.with(|c| c.set(true));
            f()
        })
        .expect("spawn runner thread")
        .join()
}

/// Executes the plan (on the current runner thread, or on a fresh thread) and returns what happened.
pub fn run_plan(plan: &Plan, keep_trace: bool) -> RunOutput {
    run_with(plan, keep_trace, run_on_this_thread)
}

pub fn run_with(plan: &Plan, keep_trace: bool, f: fn(&Plan, bool) -> RunOutput) -> RunOutput {
    if IN_RUNNER.with(|c| c.get()) {
        return f(plan, keep_trace);
    }
    let plan = plan.clone();
    match on_runner_thread(move || f(&plan, keep_trace)) {
        Ok(out) => out,
        Err(_) => {
            let mut out = RunOutput::default();
            out.violations.push(Violation { property: "HARNESS", rule: "run-thread-died", at: 0, detail: "the run thread panicked outside catch_unwind".into() });
            out
        }
    }
}

pub fn run_on_this_thread(plan: &Plan, keep_trace: bool) -> RunOutput {
    let knobs = &plan.knobs;
    incremental::verif::reset_ids();
    LAST_PANIC.with(|p| *p.borrow_mut() = None);
    incremental::verif::set_hash_seed(knobs.hash_seed);
    match knobs.tie_break {
        Some(seed) => {
            let mut rng = Rng::new(seed);
            incremental::verif::set_chooser(Some(Box::new(move |len| rng.below(len))));
        }
        None => incremental::verif::set_chooser(None),
    }
    let _ = incremental::verif::take_probes();
    let w = World::new(knobs);
    CURRENT.with(|c| *c.borrow_mut() = Rc::downgrade(&w));
    incremental::verif::set_listener(Some(Box::new(|e| {
        let w = CURRENT.with(|c| c.borrow().upgrade());
        if let Some(w) = w {
            use incremental::verif::Event as E;
            let ev = match e {
                E::Recompute(i) => EngineEv::Recompute(i),
                E::Invalidate(i) => EngineEv::Invalidate(i),
                E::BecameNecessary(i) => EngineEv::BecameNecessary(i),
                E::BecameUnnecessary(i) => EngineEv::BecameUnnecessary(i),
            };
            w.log(Ev::Engine(ev));
        }
    })));

    let mut actions_done = 0u64;
    let mut injected_panic = None;
    let mut panics = vec![];
    let mut tore_down = false;
    let mut full_teardown = false;
    for a in plan.actions.iter() {
        match a {
            Action::Teardown { perm, stabilise_between } => {
                teardown(&w, *perm, *stabilise_between);
                tore_down = true;
                full_teardown = true;
                break;
            }
            Action::DropState => {
                let r = catch_unwind(AssertUnwindSafe(|| {
                    let st = w.state.borrow_mut().take();
                    drop(st);
                }));
                w.log(Ev::Act { ctx: Ctx::Top, act: Act::DropState });
                if let Err(p) = r {
                    let (msg, injected) = panic_message(&p);
                    panics.push(msg.clone());
                    w.log(Ev::Panic { msg, injected, ctx: Ctx::Top });
                    break;
                }
                // afterwards only reads and drops are meaningful
                let n = w.obs.borrow().len();
                for oid in 0..n {
                    let m = w.obs.borrow()[oid].clones.len();
                    for c in 0..m {
                        let res = w.obs.borrow()[oid].clones[c].as_ref().map(|h| h.read());
                        if let Some(res) = res {
                            w.log(Ev::Read { oid, clone: c, res });
                        }
                    }
                }
                continue;
            }
            _ => {}
        }
        if w.state.borrow().is_none() {
            continue;
        }
        let r = catch_unwind(AssertUnwindSafe(|| exec_action(&w, a)));
        actions_done += 1;
        match r {
            Ok(()) => {
                let after = matches!(a, Action::Stabilise | Action::StabiliseUntilStable { .. });
                let r2 = catch_unwind(AssertUnwindSafe(|| probe_world(&w, knobs, after)));
                if let Err(p) = r2 {
                    let (msg, injected) = panic_message(&p);
                    panics.push(msg.clone());
                    w.ctx.borrow_mut().clear();
                    w.log(Ev::Panic { msg: format!("while reading/auditing: {msg}"), injected, ctx: Ctx::Top });
                    break;
                }
            }
            Err(p) => {
                let (mut msg, injected) = panic_message(&p);
                let api = w.api.replace("");
                if !api.is_empty() {
                    msg = format!("{msg} [inside {api}]");
                }
                let ctx = w.cur_ctx();
                w.ctx.borrow_mut().clear();
                if injected {
                    injected_panic = Some(w.crash_counter.get().saturating_sub(1));
                }
                if w.handler_phase.get() && w.in_stabilise.get() {
                    // propagation had completed: let the model close the round's propagation phase
                    let at = w.trace.borrow().len();
                    w.model.borrow_mut().finish_propagation(at);
                }
                panics.push(msg.clone());
                w.log(Ev::Panic { msg, injected, ctx });
                break;
            }
        }
        {
            let m = w.model.borrow();
            let stop = if knobs.stop_on.is_empty() { !m.violations.is_empty() } else { m.violations.iter().any(|v| v.property == knobs.stop_on) };
            if stop || m.poisoned {
                break;
            }
        }
    }
    let crash_points = w.crash_counter.get();
    if injected_panic.is_some() {
        crate::crash::post_crash_protocol(&w);
        tore_down = true;
        full_teardown = false;
    }
    if !tore_down {
        // implicit teardown in a fixed permutation derived from the knobs
        teardown(&w, knobs.hash_seed ^ 0x7ead, false);
        full_teardown = true;
    }
    if full_teardown {
        leak_check(&w);
    }
    incremental::verif::set_listener(None);
    incremental::verif::set_chooser(None);
    CURRENT.with(|c| *c.borrow_mut() = std::rc::Weak::new());
    let probes = incremental::verif::take_probes().into_iter().map(|(k, v)| (k.to_string(), v)).collect();
    let trace = w.trace.borrow();
    let model = w.model.borrow();
    RunOutput {
        violations: model.violations.clone(),
        cov: model.cov.clone(),
        probes,
        faults: fault_counts(&trace),
        trace_hash: hash_trace(&trace),
        shape_hash: model.shape.finish(),
        state_hash: 0,
        events: trace.len() as u64,
        actions: actions_done,
        trace: if keep_trace { Some(trace.clone()) } else { None },
        injected_panic,
        crash_points,
        panics,
    }
}

//! Minimisation of a failing plan: delta debugging over the action list, then per-action
//! simplification, then knobs — keeping a candidate only if it still produces a violation of the
//! same class (property id + oracle rule id).

use crate::plan::*;

pub type Sig = (String, String);

pub struct Shrinker<'a> {
    pub target: Sig,
    pub run: &'a dyn Fn(&Plan) -> Vec<Sig>,
    pub budget: usize,
    pub used: usize,
}

impl<'a> Shrinker<'a> {
    fn fails(&mut self, p: &Plan) -> bool {
        if self.used >= self.budget {
            return false;
        }
        self.used += 1;
        (self.run)(p).iter().any(|s| *s == self.target)
    }

    pub fn minimise(&mut self, plan: &Plan) -> Plan {
        let mut best = plan.clone();
        // terminal markers stay where they are; everything else is fair game
        // 1. ddmin over chunks
        let mut n = 2usize;
        while best.actions.len() >= 2 && self.used < self.budget {
            let len = best.actions.len();
            let chunk = (len + n - 1) / n;
            let mut reduced = false;
            let mut start = 0;
            while start < len {
                let end = (start + chunk).min(len);
                let mut cand = best.clone();
                cand.actions.drain(start..end);
                if !cand.actions.is_empty() && self.fails(&cand) {
                    best = cand;
                    n = (n - 1).max(2);
                    reduced = true;
                    break;
                }
                start = end;
            }
            if !reduced {
                if chunk <= 1 {
                    break;
                }
                n = (n * 2).min(len);
            }
        }
        // 2. single removals to fixpoint
        loop {
            let mut any = false;
            let mut i = best.actions.len();
            while i > 0 {
                i -= 1;
                if best.actions.len() <= 1 {
                    break;
                }
                let mut cand = best.clone();
                cand.actions.remove(i);
                if self.fails(&cand) {
                    best = cand;
                    any = true;
                }
            }
            if !any || self.used >= self.budget {
                break;
            }
        }
        // 3. knobs
        {
            let mut cand = best.clone();
            cand.knobs.tie_break = None;
            if cand != best && self.fails(&cand) {
                best = cand;
            }
            let mut cand = best.clone();
            cand.knobs.hash_seed = 0;
            if cand != best && self.fails(&cand) {
                best = cand;
            }
        }
        // 4. per-action simplification, to fixpoint
        loop {
            let mut any = false;
            for i in 0..best.actions.len() {
                for simpler in simplify(&best.actions[i]) {
                    let mut cand = best.clone();
                    cand.actions[i] = simpler;
                    if self.fails(&cand) {
                        best = cand;
                        any = true;
                        break;
                    }
                }
            }
            if !any || self.used >= self.budget {
                break;
            }
        }
        // 5. one more removal pass (simplification may have made actions redundant)
        let mut i = best.actions.len();
        while i > 0 {
            i -= 1;
            if best.actions.len() <= 1 {
                break;
            }
            let mut cand = best.clone();
            cand.actions.remove(i);
            if self.fails(&cand) {
                best = cand;
            }
        }
        // 6. cosmetic: operands are taken modulo the population, so a large operand usually has a
        //    small equivalent; try 0..8 for each (special selectors near usize::MAX stay)
        for i in 0..best.actions.len() {
            let Ok(mut val) = serde_json::to_value(&best.actions[i]) else { continue };
            let mut paths: Vec<Vec<String>> = vec![];
            collect_operands(&val, &mut vec![], &mut paths);
            for path in paths {
                let cur = get_path(&val, &path).and_then(|v| v.as_u64()).unwrap_or(0);
                if cur <= 8 || cur >= u64::MAX - 8 {
                    continue;
                }
                for small in 0..=8u64 {
                    if self.used >= self.budget {
                        break;
                    }
                    let mut v2 = val.clone();
                    set_path(&mut v2, &path, serde_json::Value::from(small));
                    let Ok(act) = serde_json::from_value::<Action>(v2.clone()) else { break };
                    let mut cand = best.clone();
                    cand.actions[i] = act;
                    if self.fails(&cand) {
                        best = cand;
                        val = v2;
                        break;
                    }
                }
            }
        }
        // 7. with small operands more actions may have become removable
        loop {
            let mut any = false;
            let mut i = best.actions.len();
            while i > 0 {
                i -= 1;
                if best.actions.len() <= 1 {
                    break;
                }
                let mut cand = best.clone();
                cand.actions.remove(i);
                if self.fails(&cand) {
                    best = cand;
                    any = true;
                }
            }
            if !any || self.used >= self.budget {
                break;
            }
        }
        best
    }
}

const OPERAND_KEYS: [&str; 12] = ["src", "node", "obs", "var", "a", "b", "lhs", "sub", "m", "clone", "srcs", "on"];

fn collect_operands(v: &serde_json::Value, at: &mut Vec<String>, out: &mut Vec<Vec<String>>) {
    match v {
        serde_json::Value::Object(m) => {
            for (k, x) in m {
                at.push(k.clone());
                if OPERAND_KEYS.contains(&k.as_str()) {
                    match x {
                        serde_json::Value::Number(_) => out.push(at.clone()),
                        serde_json::Value::Array(xs) => {
                            for (j, y) in xs.iter().enumerate() {
                                if y.is_u64() {
                                    let mut p = at.clone();
                                    p.push(j.to_string());
                                    out.push(p);
                                }
                            }
                        }
                        _ => {}
                    }
                }
                if x.is_object() || x.is_array() {
                    collect_operands(x, at, out);
                }
                at.pop();
            }
        }
        serde_json::Value::Array(xs) => {
            for (j, x) in xs.iter().enumerate() {
                at.push(j.to_string());
                collect_operands(x, at, out);
                at.pop();
            }
        }
        _ => {}
    }
}

fn get_path<'a>(v: &'a serde_json::Value, path: &[String]) -> Option<&'a serde_json::Value> {
    let mut cur = v;
    for k in path {
        cur = match cur {
            serde_json::Value::Object(m) => m.get(k)?,
            serde_json::Value::Array(xs) => xs.get(k.parse::<usize>().ok()?)?,
            _ => return None,
        };
    }
    Some(cur)
}

fn set_path(v: &mut serde_json::Value, path: &[String], new: serde_json::Value) {
    let mut cur = v;
    for k in path {
        cur = match cur {
            serde_json::Value::Object(m) => match m.get_mut(k) {
                Some(x) => x,
                None => return,
            },
            serde_json::Value::Array(xs) => match k.parse::<usize>().ok().and_then(|j| xs.get_mut(j)) {
                Some(x) => x,
                None => return,
            },
            _ => return,
        };
    }
    *cur = new;
}

fn simplify_fx(fx: &[EffectSpec]) -> Vec<Vec<EffectSpec>> {
    let mut out = vec![];
    if !fx.is_empty() {
        out.push(vec![]);
        for i in 0..fx.len() {
            let mut v = fx.to_vec();
            v.remove(i);
            out.push(v);
        }
        for i in 0..fx.len() {
            if fx[i].on.len() > 1 {
                for j in 0..fx[i].on.len() {
                    let mut v = fx.to_vec();
                    v[i].on = vec![fx[i].on[j]];
                    out.push(v);
                }
            }
            if let Effect::Subscribe { obs, h } = &fx[i].eff {
                if !h.fx.is_empty() {
                    let mut v = fx.to_vec();
                    v[i].eff = Effect::Subscribe { obs: *obs, h: Box::new(HandlerSpec::default()) };
                    out.push(v);
                }
            }
            if let Effect::SubscribeSelf { h } = &fx[i].eff {
                if !h.fx.is_empty() {
                    let mut v = fx.to_vec();
                    v[i].eff = Effect::SubscribeSelf { h: Box::new(HandlerSpec::default()) };
                    out.push(v);
                }
            }
        }
    }
    out
}

fn simplify_expr(e: &BodyExpr) -> Vec<BodyExpr> {
    let mut out = vec![];
    match e {
        BodyExpr::Outer(_) | BodyExpr::Const(_) => {}
        BodyExpr::NewVar { .. } | BodyExpr::Memo { .. } | BodyExpr::LocalMemo { .. } => {
            out.push(BodyExpr::Const(0));
        }
        BodyExpr::Ref(inner, p) => {
            out.push((**inner).clone());
            for s in simplify_expr(inner) {
                out.push(BodyExpr::Ref(Box::new(s), *p));
            }
        }
        BodyExpr::WithOld(inner, f) => {
            out.push((**inner).clone());
            for s in simplify_expr(inner) {
                out.push(BodyExpr::WithOld(Box::new(s), *f));
            }
        }
        BodyExpr::MapVia(inner, f, v) => {
            out.push(BodyExpr::Map(inner.clone(), *f));
            for s in simplify_expr(inner) {
                out.push(BodyExpr::MapVia(Box::new(s), *f, *v));
            }
        }
        BodyExpr::Map(inner, f) => {
            out.push((**inner).clone());
            out.push(BodyExpr::Const(0));
            out.push(BodyExpr::Outer(0));
            for s in simplify_expr(inner) {
                out.push(BodyExpr::Map(Box::new(s), *f));
            }
        }
        BodyExpr::Map2(a, b, f) => {
            out.push((**a).clone());
            out.push((**b).clone());
            for s in simplify_expr(a) {
                out.push(BodyExpr::Map2(Box::new(s), b.clone(), *f));
            }
            for s in simplify_expr(b) {
                out.push(BodyExpr::Map2(a.clone(), Box::new(s), *f));
            }
        }
        BodyExpr::Fold(es, f) => {
            for e in es {
                out.push(e.clone());
            }
            for i in 0..es.len() {
                if es.len() > 1 {
                    let mut v = es.clone();
                    v.remove(i);
                    out.push(BodyExpr::Fold(v, *f));
                }
                for s in simplify_expr(&es[i]) {
                    let mut v = es.clone();
                    v[i] = s;
                    out.push(BodyExpr::Fold(v, *f));
                }
            }
        }
        BodyExpr::Bind(inner, body) => {
            out.push((**inner).clone());
            for a in &body.alts {
                out.push(a.clone());
            }
            for s in simplify_expr(inner) {
                out.push(BodyExpr::Bind(Box::new(s), body.clone()));
            }
            for b in simplify_body(body) {
                out.push(BodyExpr::Bind(inner.clone(), Box::new(b)));
            }
        }
    }
    out
}

fn simplify_body(b: &BodySpec) -> Vec<BodySpec> {
    let mut out = vec![];
    if b.temp {
        let mut c = b.clone();
        c.temp = false;
        out.push(c);
    }
    if b.export {
        let mut c = b.clone();
        c.export = false;
        out.push(c);
    }
    if let Some(side) = &b.side {
        let mut c = b.clone();
        c.side = None;
        out.push(c);
        for s in simplify_expr(side) {
            let mut c = b.clone();
            c.side = Some(Box::new(s));
            out.push(c);
        }
    }
    for fx in simplify_fx(&b.fx) {
        let mut c = b.clone();
        c.fx = fx;
        out.push(c);
    }
    if b.alts.len() > 1 {
        for i in 0..b.alts.len() {
            let mut c = b.clone();
            c.alts.remove(i);
            out.push(c);
        }
    }
    if b.outers.len() > 1 {
        for i in 0..b.outers.len() {
            let mut c = b.clone();
            c.outers.remove(i);
            out.push(c);
        }
    }
    for i in 0..b.alts.len() {
        for s in simplify_expr(&b.alts[i]) {
            let mut c = b.clone();
            c.alts[i] = s;
            out.push(c);
        }
    }
    out
}

/// Candidate simpler versions of one action.
pub fn simplify(a: &Action) -> Vec<Action> {
    let mut out = vec![];
    // keep the population (and so every later index) stable while making the node trivial
    match a {
        Action::NewMap { .. }
        | Action::NewMapP { .. }
        | Action::NewMapN { .. }
        | Action::NewFold { .. }
        | Action::NewMapRef { .. }
        | Action::NewMapWithOld { .. }
        | Action::NewDependOn { .. }
        | Action::NewBind { .. }
        | Action::MemoCall { .. } => out.push(Action::NewConst { v: 0 }),
        Action::NewVar { init } if *init != 0 => out.push(Action::NewVar { init: 0 }),
        _ => {}
    }
    match a {
        Action::NewMap { src, f, fx, via } => {
            let via = *via;
            if via != 0 {
                out.push(Action::NewMap { src: *src, f: *f, fx: fx.clone(), via: 0 });
            }
            for v in simplify_fx(fx) {
                out.push(Action::NewMap { src: *src, f: *f, fx: v, via });
            }
            if *f != F1::Id {
                out.push(Action::NewMap { src: *src, f: F1::Id, fx: fx.clone(), via });
                out.push(Action::NewMap { src: *src, f: F1::Inc, fx: fx.clone(), via });
            }
        }
        Action::NewMapN { srcs, f, fx } => {
            for v in simplify_fx(fx) {
                out.push(Action::NewMapN { srcs: srcs.clone(), f: *f, fx: v });
            }
            if srcs.len() > 2 {
                for i in 0..srcs.len() {
                    let mut s = srcs.clone();
                    s.remove(i);
                    out.push(Action::NewMapN { srcs: s, f: *f, fx: fx.clone() });
                }
            }
            if *f != F2::Add {
                out.push(Action::NewMapN { srcs: srcs.clone(), f: F2::Add, fx: fx.clone() });
            }
        }
        Action::NewFold { srcs, init, f } => {
            if !srcs.is_empty() {
                for i in 0..srcs.len() {
                    let mut s = srcs.clone();
                    s.remove(i);
                    out.push(Action::NewFold { srcs: s, init: *init, f: *f });
                }
            }
            if *f != F2::Add {
                out.push(Action::NewFold { srcs: srcs.clone(), init: *init, f: F2::Add });
            }
        }
        Action::NewBind { lhs, body } => {
            for b in simplify_body(body) {
                out.push(Action::NewBind { lhs: *lhs, body: b });
            }
        }
        Action::Subscribe { obs, h } => {
            for v in simplify_fx(&h.fx) {
                out.push(Action::Subscribe { obs: *obs, h: HandlerSpec { fx: v } });
            }
        }
        Action::Write { var, op } => {
            if !matches!(op, WriteOp::Set(_)) {
                out.push(Action::Write { var: *var, op: WriteOp::Set(1) });
                out.push(Action::Write { var: *var, op: WriteOp::Update(F1::Inc) });
            }
        }
        Action::StabiliseUntilStable { .. } => out.push(Action::Stabilise),
        Action::Teardown { perm, stabilise_between } => {
            if *stabilise_between {
                out.push(Action::Teardown { perm: *perm, stabilise_between: false });
            }
        }
        Action::SetCutoff { node, pool, c } => {
            if *c != CutoffSpec::Never && *c != CutoffSpec::Default {
                out.push(Action::SetCutoff { node: *node, pool: *pool, c: CutoffSpec::Never });
            }
        }
        _ => {}
    }
    out
}

//! Per-property check specifications: which engine, which generation profile, how many runs,
//! and what makes a run non-trivial ("trigger") for that property.

use crate::gen::Profile;
use crate::run::RunOutput;

#[derive(Clone, Copy, Debug, PartialEq, Eq)]
pub enum Engine {
    Core,
    Expert,
    Map,
    Limits,
}

pub struct Spec {
    pub prop: &'static str,
    pub engine: Engine,
    pub level: &'static str,
    /// (release runs, debug-assertion runs)
    pub quick: (u64, u64),
    pub thorough: (u64, u64),
    pub crash_enumeration: bool,
    pub rule: &'static str,
}

pub const PROPS: [&str; 19] = [
    "C01", "C02", "C03", "C04", "C05", "C06", "C07", "C08", "C09", "C10", "C11", "C12", "C13", "C14", "C15", "C16", "C17", "C19", "C20",
];

pub fn spec(prop: &str) -> Option<Spec> {
    let s = |prop, engine, quick, thorough, rule| Spec { prop, engine, level: "exploration", quick, thorough, crash_enumeration: false, rule };
    Some(match prop {
        "C01" => s("C01", Engine::Core, (600_000, 200_000), (30_000_000, 10_000_000), "seeded core histories, equality cutoffs only; non-trivial = a node was unobserved during a write to its cone and observed again, or a bind switched its right-hand side; distinct = distinct sequence of recomputed node kinds over the run"),
        "C02" => s("C02", Engine::Core, (600_000, 200_000), (30_000_000, 10_000_000), "seeded core histories with sibling-biased binds, link-order variation and in-bucket tie-break; non-trivial = a bind switched in a round where nodes of at least two kinds recomputed; distinct = distinct recompute-order sequence"),
        "C03" => s("C03", Engine::Core, (600_000, 200_000), (30_000_000, 10_000_000), "seeded core histories with exported bind-built nodes; non-trivial = a bind re-ran while nodes of its previous run existed (they were invalidated); distinct = distinct recompute-order sequence"),
        "C04" => s("C04", Engine::Core, (600_000, 300_000), (30_000_000, 15_000_000), "seeded well-formed histories in both build flavours: core (13 in 16), expert API, incremental-map operators and typed shapes (3 in 16); non-trivial = run reached adjust-heights, a dropped bind-built node, duplicate parents removal, or handler-phase re-entrancy (probe counters); distinct = distinct recompute-order sequence"),
        "C05" => s("C05", Engine::Core, (600_000, 200_000), (30_000_000, 10_000_000), "seeded core histories heavy on observer creation/drop/disallow; non-trivial = a stabilise ran with a pending write whose cone had no live observer, or a node ran that was needed only at the start of the round; distinct = distinct recompute-order sequence"),
        "C06" => s("C06", Engine::Core, (600_000, 200_000), (30_000_000, 10_000_000), "seeded core histories with all cutoff kinds on all node kinds; non-trivial = some cutoff suppressed and some cutoff passed a result in the same run; distinct = distinct recompute-order sequence"),
        "C07" => s("C07", Engine::Core, (600_000, 200_000), (30_000_000, 10_000_000), "seeded core histories with reads after every action and from inside callbacks, every observed value compared with a from-scratch evaluation at the end of each stabilise (equality cutoffs only), plus (1 in 16) expert-API histories whose observability callback writes a variable inside stabilise; non-trivial = reads were issued from inside node functions or handlers and between a write and its stabilise; distinct = distinct recompute-order sequence"),
        "C08" => s("C08", Engine::Core, (600_000, 200_000), (30_000_000, 10_000_000), "seeded core histories heavy on the five write operations from top level, node functions and handlers; non-trivial = a deferred or handler-phase write happened; distinct = distinct recompute-order sequence"),
        "C09" => s("C09", Engine::Core, (600_000, 200_000), (30_000_000, 10_000_000), "seeded core histories heavy on subscriptions; non-trivial = at least two notifications were delivered and an observer or subscription was added to a node that already had a subscriber; distinct = distinct recompute-order sequence"),
        "C10" => s("C10", Engine::Core, (600_000, 200_000), (30_000_000, 10_000_000), "seeded observer lifecycle histories; non-trivial = at least three lifecycle results (subscribe/unsubscribe outcomes) were judged; distinct = distinct recompute-order sequence"),
        "C11" => s("C11", Engine::Core, (600_000, 200_000), (30_000_000, 10_000_000), "seeded core histories, engine audit after every action; non-trivial = at least ten audits ran over a graph in which a bind switched or a node became unnecessary; distinct = distinct recompute-order sequence"),
        "C12" => s("C12", Engine::Core, (600_000, 200_000), (30_000_000, 10_000_000), "seeded core histories ending in a random-permutation teardown; non-trivial = teardown interleaved with stabilises over a graph with binds or vars dropped mid-run; distinct = distinct recompute-order sequence"),
        "C13" => Spec { prop: "C13", engine: Engine::Core, level: "fault_enumeration", quick: (60_000, 20_000), thorough: (3_000_000, 1_000_000), crash_enumeration: true, rule: "seeded core histories; for each, a panic is injected at every individual user-function invocation reached inside stabilise (exhaustive per history); evaluations counts injected runs; non-trivial = crash point with at least one node already recomputed in that round; distinct = distinct (history, crash point)" },
        "C14" => s("C14", Engine::Expert, (400_000, 150_000), (20_000_000, 8_000_000), "seeded histories over expert-API join, bind and dynamic-sum constructions (shared, duplicate and bind-created invalidatable children); non-trivial = a dependency on an invalidated child was removed or one of two dependencies on the same child was removed; distinct = distinct sequence of add/remove/recompute events"),
        "C15" => s("C15", Engine::Map, (400_000, 150_000), (20_000_000, 8_000_000), "seeded edit histories (insert, remove, change, clear, refill, no-op write, unobserve/re-observe) for each diff-based operator x map type; non-trivial = the operator was re-observed after edits, or its input was emptied or refilled; distinct = distinct (operator, map type, per-round user-function call pattern)"),
        "C16" => s("C16", Engine::Map, (300_000, 100_000), (15_000_000, 5_000_000), "seeded edit histories for incr_(filter_)mapi_(_cutoff) on BTreeMap and OrdMap with five per-key function families and an outer variable; non-trivial = re-observed after edits, emptied or refilled; distinct = distinct (operator, map type, per-round call pattern)"),
        "C17" => s("C17", Engine::Map, (400_000, 150_000), (20_000_000, 8_000_000), "seeded edit histories with instrumented user functions logging (round, key, role); non-trivial = a round whose diff was a strict non-empty subset of the keys; distinct = distinct (operator, map type, per-round call pattern)"),
        "C19" => s("C19", Engine::Limits, (300_000, 100_000), (15_000_000, 5_000_000), "seeded histories of chains and binds with heights around the limit N, run under new_with_height(N) and under a reconfiguration to N at a seeded quiescent point, each compared with a twin run under a very large limit; plus misuse (cycle through one or two binds, cross-state node, nested stabilise from a node function or a handler) injected at a seeded point; non-trivial = the limit was hit, or a reconfiguration happened, or a misuse was injected; distinct = distinct (N, misuse kind, action/outcome sequence)"),
        "C20" => s("C20", Engine::Core, (600_000, 200_000), (30_000_000, 10_000_000), "seeded core histories with memoised constructors called from top level and from bind closures; non-trivial = a memoised call hit a live node and another call re-created a dropped one; distinct = distinct recompute-order sequence"),
        _ => return None,
    })
}

pub fn profile(prop: &str) -> Profile {
    let mut p = Profile::base("core");
    match prop {
        "C01" => {
            p.noneq_cutoffs = false;
            p.w_observe = 14;
            p.w_dropobs = 9;
            p.w_disallow = 5;
            p.w_dropnode = 5;
            p.w_bind = 10;
            p.big_pct = 10;
        }
        "C02" => {
            p.sibling_bias = true;
            p.w_bind = 14;
            p.tie_break_pct = 40;
            p.noneq_cutoffs = false;
            p.big_pct = 10;
        }
        "C03" => {
            p.sibling_bias = true;
            p.w_bind = 14;
            p.export_pct = 60;
            p.w_observe = 14;
            p.w_sub = 7;
            p.big_pct = 10;
        }
        "C04" => {
            p.big_pct = 15;
            p.temp_pct = 40;
            p.w_bind = 10;
            p.fx_pct = 20;
            p.same_obs = true;
            p.w_memo = 2;
        }
        "C05" => {
            p.outer_rhs_skeleton_pct = 10;
            p.w_observe = 14;
            p.w_clone = 4;
            p.w_dropobs = 10;
            p.w_disallow = 6;
            p.fx_pct = 20;
        }
        "C06" => {
            p.outer_rhs_skeleton_pct = 10;
            p.w_cutoff = 12;
            p.w_write = 28;
        }
        "C07" => {
            // the one-snapshot clause is judged against a from-scratch evaluation, which needs
            // cutoffs that only suppress equal values
            p.noneq_cutoffs = false;
            p.w_observe = 12;
            p.w_dropobs = 7;
            p.mapref_skeleton_pct = 10;
            p.fx_pct = 35;
            p.hfx_pct = 60;
            p.w_sub = 8;
        }
        "C08" => {
            p.fx_pct = 45;
            p.hfx_pct = 60;
            p.w_write = 30;
            p.w_dropvar = 3;
            p.w_isstable = 4;
            p.w_sub = 7;
        }
        "C09" => {
            p.w_sub = 14;
            p.w_unsub = 6;
            p.w_observe = 12;
            p.w_clone = 3;
            p.hfx_pct = 50;
            p.same_obs = true;
            p.export_pct = 40;
        }
        "C10" => {
            p.w_observe = 16;
            p.w_clone = 8;
            p.w_dropobs = 12;
            p.w_disallow = 8;
            p.w_sub = 12;
            p.w_unsub = 10;
            p.w_build = 12;
            p.w_bind = 3;
            // lifecycle calls made from inside an observer's own handlers
            p.hfx_pct = 40;
            p.same_obs = true;
        }
        "C11" => {
            p.w_onupdate = 3;
            p.w_sub = 7;
            p.w_unsub = 4;
            p.w_memo = 2;
        }
        "C12" => {
            p.random_teardown_pct = 100;
            p.drop_state_pct = 15;
            p.w_dropnode = 8;
            p.w_dropvar = 4;
            p.w_memo = 2;
        }
        "C13" => {
            p.actions = (10, 40);
            p.w_observe = 14;
            p.w_stab = 22;
            p.w_sub = 8;
            p.w_cutoff = 5;
            p.hfx_pct = 30;
            // memoised constructors (also inside bind closures) are crash points too
            p.w_memo = 3;
            p.random_teardown_pct = 0;
        }
        "C20" => {
            p.w_memo = 18;
            p.w_bind = 12;
            p.w_dropnode = 8;
            p.export_pct = 10;
        }
        _ => {}
    }
    p
}

fn probe(out: &RunOutput, name: &str) -> u64 {
    out.probes.iter().find(|(k, _)| k == name).map(|(_, v)| *v).unwrap_or(0)
}

/// Did this run reach the condition that makes it non-trivial for `prop`?
pub fn trigger(prop: &str, out: &RunOutput) -> bool {
    let c = &out.cov;
    match prop {
        "C01" => c.reobserved > 0 && c.disconnect_writes > 0 || c.bind_switches > 0,
        "C02" => c.bind_switches > 0 && (probe(out, "DirectRecomputeScope") > 0 || probe(out, "DirectRecomputeMinHeight") > 0),
        "C03" => c.bind_switches > 0 && c.invalidated_nodes > 0,
        "C04" => probe(out, "AdjustHeightsMovedNode") > 0 || probe(out, "RemoveParentSwapped") > 0 || c.handler_writes > 0,
        "C05" => c.idle_rounds_with_writes > 0 || c.may_run_only > 0,
        "C06" => c.cutoff_true > 0 && c.cutoff_false > 0,
        "C07" => c.reads_checked > 20 && (c.deferred_writes > 0 || c.handler_writes > 0 || out.faults.get("reentrant_read").copied().unwrap_or(0) > 0),
        "C08" => c.deferred_writes > 0 || c.handler_writes > 0,
        "C09" => c.notifications >= 2,
        "C10" => c.lifecycle_errors_checked >= 3,
        "C11" => c.audits >= 10 && (c.bind_switches > 0 || probe(out, "RemovedFromHeapUnnecessary") > 0),
        "C12" => c.rounds >= 2,
        "C13" => out.injected_panic.is_some(),
        "C14" => c.bind_switches > 0 || c.reobserved > 0,
        "C15" | "C16" => c.reobserved > 0 || c.bind_switches > 0,
        "C17" => c.may_run_only > 0,
        "C19" => c.bind_switches > 0 || c.reobserved > 0,
        "C20" => c.memo_hits > 0 && c.memo_recreated > 0,
        _ => true,
    }
}

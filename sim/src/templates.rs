//! Typed shape templates for C12: the shapes the property names that the i64 grammar of the
//! core engine cannot express (vars of vars, a var holding a node, a bind returning its own
//! input, self-map2, folds with duplicates, expert nodes, memo tables), each driven by a seeded
//! history and then torn down in a seeded permutation with stabilises in between.
//! Oracle: no drop or stabilise panics; once every handle except the state is gone and one
//! stabilise has run, and again once the state is gone too, every node (weak handle) and every
//! captured value (drop token) has been released.

use std::any::Any;
use std::cell::{Cell, RefCell};
use std::panic::{catch_unwind, AssertUnwindSafe};
use std::rc::Rc;

use incremental::expert::{Dependency, Node};
use incremental::{Incr, IncrState, Value, Var};
use serde::{Deserialize, Serialize};

use crate::plan::*;
use crate::rng::{Fnv, Rng};
use crate::run::{panic_message, RunOutput};
use crate::trace::Violation;
use crate::xplan::XAct;

#[derive(Serialize, Deserialize, Clone, Debug)]
pub struct TemplateCfg {
    pub shape: u8,
    pub perm: u64,
    /// drop the state at this position of the teardown permutation (None: last)
    pub state_early: bool,
}

pub const N_SHAPES: u8 = 11;
/// the shape with a memoised constructor keyed by a node (`Incr`) chained on one keyed by a number
pub const SHAPE_MEMO_CHAIN: u8 = 10;

/// flips when the value that carries it is dropped
#[derive(Clone)]
struct Tok(Rc<Cell<u32>>);
#[derive(Debug, Clone, PartialEq)]
struct Guarded(i64, TokHandle);
#[derive(Clone)]
struct TokHandle(Rc<TokInner>);
struct TokInner(Rc<Cell<u32>>);
impl Drop for TokInner {
    fn drop(&mut self) {
        self.0.set(self.0.get() + 1);
    }
}
impl std::fmt::Debug for TokHandle {
    fn fmt(&self, f: &mut std::fmt::Formatter<'_>) -> std::fmt::Result {
        write!(f, "tok")
    }
}
impl PartialEq for TokHandle {
    fn eq(&self, _: &Self) -> bool {
        true
    }
}

struct Built {
    handles: Vec<Box<dyn Any>>,
    probes: Vec<Box<dyn Fn() -> usize>>,
    /// (issued, dropped-counter)
    tokens: Vec<(u32, Rc<Cell<u32>>)>,
    writers: Vec<Box<dyn Fn(i64)>>,
    /// nodes that lost their last owner before the next stabilise: must be dead after it
    after_round: Rc<RefCell<Vec<Box<dyn Fn() -> usize>>>>,
    /// (property, rule, detail) raised by the shape's own steps
    errors: Rc<RefCell<Vec<(&'static str, &'static str, String)>>>,
}

fn probe<T: 'static>(b: &mut Built, i: &Incr<T>) {
    let w = i.weak();
    b.probes.push(Box::new(move || w.strong_count()));
}

fn tok(b: &mut Built) -> TokHandle {
    let c = Rc::new(Cell::new(0));
    b.tokens.push((1, c.clone()));
    TokHandle(Rc::new(TokInner(c)))
}

fn join<T: Value>(incr: &Incr<Incr<T>>) -> Incr<T> {
    let prev_rhs: Rc<RefCell<Option<Dependency<T>>>> = Rc::new(None.into());
    let state = incr.state();
    let join = Node::<T>::new(&state, {
        let prev_rhs_ = prev_rhs.clone();
        move || prev_rhs_.borrow().clone().unwrap().value_cloned()
    });
    let join_ = join.weak();
    let lhs_change = incr.map(move |rhs| {
        let dep = join_.add_dependency(rhs);
        let mut prev_rhs_ = prev_rhs.borrow_mut();
        if let Some(prev) = prev_rhs_.take() {
            join_.remove_dependency(prev);
        }
        prev_rhs_.replace(dep);
    });
    join.add_dependency(&lhs_change);
    join.watch()
}

fn build(state: &IncrState, shape: u8) -> Built {
    let mut b = Built { handles: vec![], probes: vec![], tokens: vec![], writers: vec![], after_round: Rc::new(RefCell::new(vec![])), errors: Rc::new(RefCell::new(vec![])) };
    match shape % N_SHAPES {
        0 => {
            // Var<Var<i64>>
            let inner = state.var(1i64);
            let outer = state.var(inner.clone());
            probe(&mut b, &inner.watch());
            probe(&mut b, &outer.watch());
            let o = outer.observe();
            let i2 = inner.clone();
            b.writers.push(Box::new(move |v| i2.set(v)));
            b.handles.push(Box::new(o));
            b.handles.push(Box::new(outer));
            b.handles.push(Box::new(inner));
        }
        1 => {
            // Var<Var<Var<i64>>> with a joining bind
            let a = state.var(1i64);
            let bb = state.var(a.clone());
            let c = state.var(bb.clone());
            probe(&mut b, &a.watch());
            probe(&mut b, &bb.watch());
            probe(&mut b, &c.watch());
            let j = c.bind(|m: &Var<Var<i64>>| m.bind(|i: &Var<i64>| i.watch()));
            probe(&mut b, &j);
            let o = j.observe();
            let a2 = a.clone();
            b.writers.push(Box::new(move |v| a2.set(v)));
            let (c2, st) = (c.clone(), state.weak());
            let ar = b.after_round.clone();
            let first = Cell::new(true);
            b.writers.push(Box::new(move |v| {
                // replace the middle var: the old one (and its inner var) must be released by the
                // next stabilise, unless it is the original one that the driver still holds
                let old_mid: Var<Var<i64>> = c2.get();
                let fresh_inner = st.var(v);
                let fresh_mid = st.var(fresh_inner);
                c2.set(fresh_mid);
                if !first.replace(false) {
                    let w1 = old_mid.watch().weak();
                    let w2 = old_mid.get().watch().weak();
                    ar.borrow_mut().push(Box::new(move || w1.strong_count()));
                    ar.borrow_mut().push(Box::new(move || w2.strong_count()));
                }
                drop(old_mid);
            }));
            b.handles.push(Box::new(o));
            b.handles.push(Box::new(j));
            b.handles.push(Box::new(c));
            b.handles.push(Box::new(bb));
            b.handles.push(Box::new(a));
        }
        2 => {
            // Var<Incr<i64>> followed through a bind and through an expert join
            let x = state.var(1i64);
            let m1 = x.map(|v| v + 1);
            let m2 = x.map(|v| v + 2);
            let holder = state.var(m1.clone());
            probe(&mut b, &m1);
            probe(&mut b, &m2);
            probe(&mut b, &holder.watch());
            let followed = holder.bind(|i: &Incr<i64>| i.clone());
            let joined = join(&holder.watch());
            probe(&mut b, &followed);
            probe(&mut b, &joined);
            let o1 = followed.observe();
            let o2 = joined.observe();
            let x2 = x.clone();
            b.writers.push(Box::new(move |v| x2.set(v)));
            let (h2, a, c) = (holder.clone(), m1.clone(), m2.clone());
            b.writers.push(Box::new(move |v| h2.set(if v % 2 == 0 { a.clone() } else { c.clone() })));
            b.handles.push(Box::new(o1));
            b.handles.push(Box::new(o2));
            b.handles.push(Box::new(followed));
            b.handles.push(Box::new(joined));
            b.handles.push(Box::new(holder));
            b.handles.push(Box::new(m1));
            b.handles.push(Box::new(m2));
            b.handles.push(Box::new(x));
        }
        3 => {
            // a bind returning its own input, and a var bound to itself
            let x = state.var(1i64);
            let w = x.watch();
            let t = tok(&mut b);
            let bnd = x.bind(move |_| {
                let _keep = &t;
                w.clone()
            });
            probe(&mut b, &x.watch());
            probe(&mut b, &bnd);
            let o = bnd.observe();
            let x2 = x.clone();
            b.writers.push(Box::new(move |v| x2.set(v)));
            b.handles.push(Box::new(o));
            b.handles.push(Box::new(bnd));
            b.handles.push(Box::new(x));
        }
        4 => {
            // self-map2 and a fold with duplicate inputs
            let x = state.var(1i64);
            let t = tok(&mut b);
            let m = x.map2(&x, move |a, c| {
                let _keep = &t;
                a + c
            });
            let f = state.fold(vec![x.watch(), m.clone(), x.watch(), m.clone()], 0i64, |acc, v| acc + v);
            probe(&mut b, &x.watch());
            probe(&mut b, &m);
            probe(&mut b, &f);
            let o = f.observe();
            let o2 = m.observe();
            let x2 = x.clone();
            b.writers.push(Box::new(move |v| x2.set(v)));
            b.handles.push(Box::new(o));
            b.handles.push(Box::new(o2));
            b.handles.push(Box::new(f));
            b.handles.push(Box::new(m));
            b.handles.push(Box::new(x));
        }
        5 => {
            // values with drop tokens travelling through a var, a map and a map_ref
            let t = tok(&mut b);
            let x = state.var((Guarded(1, t), 5i64));
            let m = x.map(|p| (p.0.clone(), p.1 + 1));
            let r = m.map_ref(|p| &p.1);
            let c = r.map(|v| v + 1);
            probe(&mut b, &x.watch());
            probe(&mut b, &m);
            probe(&mut b, &r);
            probe(&mut b, &c);
            let o = c.observe();
            let x2 = x.clone();
            let b_tokens: Rc<RefCell<Vec<(u32, Rc<Cell<u32>>)>>> = Rc::new(RefCell::new(vec![]));
            let bt = b_tokens.clone();
            b.writers.push(Box::new(move |v| {
                let cnt = Rc::new(Cell::new(0));
                bt.borrow_mut().push((1, cnt.clone()));
                x2.set((Guarded(v, TokHandle(Rc::new(TokInner(cnt)))), v));
            }));
            b.handles.push(Box::new(b_tokens));
            b.handles.push(Box::new(o));
            b.handles.push(Box::new(c));
            b.handles.push(Box::new(r));
            b.handles.push(Box::new(m));
            b.handles.push(Box::new(x));
        }
        6 => {
            // a var written from a bind closure, whose last handle the closure owns
            let v = state.var(10i64);
            let w = v.watch();
            probe(&mut b, &w);
            let k = state.var(0i64);
            let t = tok(&mut b);
            let c = k.bind(move |kv| {
                let _keep = &t;
                v.set(90 + *kv);
                w.clone()
            });
            probe(&mut b, &c);
            let o = c.observe();
            let k2 = k.clone();
            b.writers.push(Box::new(move |x| k2.set(x)));
            b.handles.push(Box::new(o));
            b.handles.push(Box::new(c));
            b.handles.push(Box::new(k));
        }
        7 => {
            // memo table whose nodes are shared between the top level and a bind
            let x = state.var(1i64);
            let xw = x.watch();
            let t = tok(&mut b);
            let memo = state.weak_memoize_fn(move |k: i64| {
                let _keep = &t;
                xw.map(move |v| v + k)
            });
            let mut m1 = memo.clone();
            let n0 = m1(0);
            let n1 = m1(1);
            probe(&mut b, &n0);
            probe(&mut b, &n1);
            let sel = state.var(0i64);
            let mut m2 = memo.clone();
            let bnd = sel.bind(move |s| m2(*s % 3));
            probe(&mut b, &bnd);
            let o = bnd.observe();
            let (x2, s2) = (x.clone(), sel.clone());
            b.writers.push(Box::new(move |v| x2.set(v)));
            b.writers.push(Box::new(move |v| s2.set(v.rem_euclid(3))));
            b.handles.push(Box::new(o));
            b.handles.push(Box::new(bnd));
            b.handles.push(Box::new(n0));
            b.handles.push(Box::new(n1));
            b.handles.push(Box::new(Box::new(memo) as Box<dyn FnMut(i64) -> Incr<i64>>));
            b.handles.push(Box::new(sel));
            b.handles.push(Box::new(x));
        }
        8 => {
            // subscriptions capturing tokens, node-level handlers, cloned observers
            let x = state.var(1i64);
            let m = x.map(|v| v * 2);
            probe(&mut b, &m);
            probe(&mut b, &x.watch());
            let o = m.observe();
            let o2 = o.clone();
            let t1 = tok(&mut b);
            let t2 = tok(&mut b);
            let _s = o.subscribe(move |_| {
                let _k = &t1;
            });
            m.on_update(move |_| {
                let _k = &t2;
            });
            let x2 = x.clone();
            b.writers.push(Box::new(move |v| x2.set(v)));
            b.handles.push(Box::new(o));
            b.handles.push(Box::new(o2));
            b.handles.push(Box::new(m));
            b.handles.push(Box::new(x));
        }
        10 => {
            // leaf: number -> node, double: node -> node (its table holds the leaf node as a key).
            // Steps (one per write, a stabilise in between): 0 call both and keep the nodes,
            // 1 drop the nodes, 2 call leaf again: with every reference gone and a stabilise run,
            // the underlying function must be invoked again; then start over.
            let x = state.var(1i64);
            let xw = x.watch();
            let calls = Rc::new(Cell::new(0u32));
            let c2 = calls.clone();
            let leaf = state.weak_memoize_fn(move |k: i64| {
                c2.set(c2.get() + 1);
                xw.map(move |v| v + k)
            });
            let double = state.weak_memoize_fn(|n: Incr<i64>| n.map(|v| v * 2));
            let (leaf, double) = (RefCell::new(leaf), RefCell::new(double));
            let slot: Rc<RefCell<Option<(Incr<i64>, Incr<i64>)>>> = Rc::new(RefCell::new(None));
            let phase = Rc::new(Cell::new(0u32));
            let after = b.after_round.clone();
            let errors = b.errors.clone();
            let x2 = x.clone();
            b.writers.push(Box::new(move |v| {
                let key = 1i64;
                match phase.get() % 3 {
                    0 => {
                        let n = (leaf.borrow_mut())(key);
                        let d = (double.borrow_mut())(n.clone());
                        *slot.borrow_mut() = Some((n, d));
                    }
                    1 => {
                        if let Some((n, d)) = slot.borrow_mut().take() {
                            let (wn, wd) = (n.weak(), d.weak());
                            after.borrow_mut().push(Box::new(move || wn.strong_count()));
                            after.borrow_mut().push(Box::new(move || wd.strong_count()));
                        }
                    }
                    _ => {
                        let before = calls.get();
                        let n = (leaf.borrow_mut())(key);
                        if calls.get() == before {
                            errors.borrow_mut().push(("C20", "memo-stale-hit", "every reference to the node made for this key was dropped and a stabilise ran, yet the memoised function returned a node without calling the underlying function".to_string()));
                        }
                        drop(n);
                    }
                }
                phase.set(phase.get() + 1);
                x2.set(v);
            }));
            b.handles.push(Box::new(x));
        }
        _ => {
            // nested binds creating vars in their own scope
            let x = state.var(1i64);
            let st = state.weak();
            let t = tok(&mut b);
            let bnd = x.bind(move |v| {
                let _k = &t;
                let inner = st.var_current_scope(*v);
                let st2 = st.clone();
                inner.bind(move |w| {
                    let c = st2.constant(*w + 1);
                    c.map(|q| q + 1)
                })
            });
            probe(&mut b, &bnd);
            probe(&mut b, &x.watch());
            let o = bnd.observe();
            let x2 = x.clone();
            b.writers.push(Box::new(move |v| x2.set(v)));
            b.handles.push(Box::new(o));
            b.handles.push(Box::new(bnd));
            b.handles.push(Box::new(x));
        }
    }
    b
}

pub fn gen_plan(seed: u64) -> Plan {
    gen_plan_shape(seed, None)
}

pub fn gen_plan_shape(seed: u64, force: Option<u8>) -> Plan {
    let mut r = Rng::stream(seed, 1);
    let drawn = r.below(N_SHAPES as usize) as u8;
    let shape = force.unwrap_or(drawn);
    let n = r.range(2, 14) as usize;
    let mut acts = vec![XAct::Stabilise];
    while acts.len() < n {
        if shape == SHAPE_MEMO_CHAIN {
            // its steps need a stabilise after every write
            acts.push(XAct::Write { v: r.range(-3, 8) });
            acts.push(XAct::Stabilise);
            continue;
        }
        acts.push(match r.weighted(&[5, 4]) {
            0 => XAct::Write { v: r.range(-3, 8) },
            _ => XAct::Stabilise,
        });
    }
    let knobs = Knobs { hash_seed: r.next(), tie_break: None, max_height: None, crash_at: None, dense_reads: true, audit: true, stop_on: String::new() };
    Plan {
        engine: "templates".into(),
        actions: acts.into_iter().map(Action::X).collect(),
        knobs,
        extra: serde_json::to_value(TemplateCfg { shape, perm: r.next(), state_early: r.chance(1, 3) }).unwrap(),
    }
}

pub fn run_on_this_thread(plan: &Plan, keep_trace: bool) -> RunOutput {
    let cfg: TemplateCfg = serde_json::from_value(plan.extra.clone()).expect("template cfg");
    incremental::verif::reset_ids();
    incremental::verif::set_hash_seed(plan.knobs.hash_seed);
    incremental::verif::set_chooser(None);
    incremental::verif::set_listener(None);
    let _ = incremental::verif::take_probes();
    let mut out = RunOutput::default();
    let mut log: Vec<String> = vec![format!("shape {}", cfg.shape % N_SHAPES)];
    let mut viol: Vec<Violation> = vec![];
    let mut rounds = 0u64;
    let mut audits = 0u64;
    let r = catch_unwind(AssertUnwindSafe(|| {
        let state = IncrState::new();
        let mut built = build(&state, cfg.shape);
        let mut wi = 0usize;
        for a in plan.actions.iter() {
            let Action::X(a) = a else { continue };
            match a {
                XAct::Stabilise => {
                    state.stabilise();
                    rounds += 1;
                    let pending: Vec<Box<dyn Fn() -> usize>> = built.after_round.borrow_mut().drain(..).collect();
                    let alive = pending.iter().filter(|p| p() > 0).count();
                    if alive > 0 {
                        viol.push(Violation {
                            property: "C12",
                            rule: "replaced-value-not-released",
                            at: log.len(),
                            detail: format!("shape {}: {} nodes of a variable that was replaced (no handle left) are still alive after the next stabilise", cfg.shape % N_SHAPES, alive),
                        });
                    }
                }
                XAct::Write { v } => {
                    if !built.writers.is_empty() {
                        (built.writers[wi % built.writers.len()])(*v);
                        wi += 1;
                    }
                }
                _ => {}
            }
            log.push(format!("{:?}", a));
            for (p, r, d) in built.errors.borrow_mut().drain(..) {
                viol.push(Violation { property: p, rule: r, at: log.len(), detail: format!("shape {}: {}", cfg.shape % N_SHAPES, d) });
            }
            let lines = crate::run::full_audit(&state, matches!(a, XAct::Stabilise));
            audits += 1;
            for l in lines {
                viol.push(Violation { property: "C11", rule: "audit", at: log.len(), detail: l });
            }
        }
        // ---- teardown: every handle in a seeded permutation, the state somewhere in between or last
        built.writers.clear();
        let mut rng = Rng::new(cfg.perm);
        let mut order: Vec<usize> = (0..built.handles.len()).collect();
        rng.shuffle(&mut order);
        let state_at = if cfg.state_early { Some(rng.below(order.len() + 1)) } else { None };
        let mut handles: Vec<Option<Box<dyn Any>>> = built.handles.drain(..).map(Some).collect();
        let mut state_opt = Some(state);
        for (pos, i) in order.iter().enumerate() {
            if state_at == Some(pos) {
                log.push("drop state".into());
                drop(state_opt.take());
            }
            // tokens created by writers live in a handle of their own: collect them first
            if let Some(h) = handles[*i].as_ref() {
                if let Some(extra) = h.downcast_ref::<Rc<RefCell<Vec<(u32, Rc<Cell<u32>>)>>>>() {
                    built.tokens.extend(extra.borrow().iter().cloned());
                }
            }
            log.push(format!("drop handle {}", i));
            drop(handles[*i].take());
            if let Some(st) = state_opt.as_ref() {
                if rng.chance(1, 3) {
                    st.stabilise();
                    rounds += 1;
                    log.push("stabilise".into());
                }
            }
        }
        let check = |when: &str, viol: &mut Vec<Violation>, log: &Vec<String>| {
            let alive: Vec<usize> = built.probes.iter().enumerate().filter(|(_, p)| p() > 0).map(|(i, _)| i).collect();
            let unreleased: Vec<usize> = built.tokens.iter().enumerate().filter(|(_, (n, c))| c.get() < *n).map(|(i, _)| i).collect();
            if !alive.is_empty() || !unreleased.is_empty() {
                viol.push(Violation {
                    property: "C12",
                    rule: "shape-not-released",
                    at: log.len(),
                    detail: format!("shape {} {}: nodes {:?} are still alive and captured values {:?} were not released", cfg.shape % N_SHAPES, when, alive, unreleased),
                });
            }
        };
        if let Some(st) = state_opt.as_ref() {
            st.stabilise();
            rounds += 1;
            log.push("stabilise (all handles gone)".into());
            check("after every handle was dropped and one stabilise ran", &mut viol, &log);
        }
        drop(state_opt.take());
        log.push("drop state".into());
        check("after every handle and the state were dropped", &mut viol, &log);
    }));
    if let Err(p) = r {
        let (msg, _) = panic_message(&p);
        log.push(format!("PANIC {}", msg));
        viol.push(Violation { property: "C12", rule: "shape-panicked", at: log.len(), detail: format!("shape {} panicked: {}", cfg.shape % N_SHAPES, msg) });
        out.panics.push(msg);
    }
    out.violations = viol;
    out.cov.rounds = rounds;
    out.cov.audits = audits;
    out.actions = plan.actions.len() as u64;
    out.events = log.len() as u64;
    out.probes = incremental::verif::take_probes().into_iter().map(|(k, v)| (k.to_string(), v)).collect();
    let mut h = Fnv::new();
    for l in &log {
        h.str(l);
    }
    out.trace_hash = h.finish();
    out.shape_hash = h.finish();
    if keep_trace {
        out.trace = Some(log.iter().map(|l| crate::trace::Ev::Note(l.clone())).collect());
    }
    out
}

//! The totally ordered trace of one simulated run. Plain data (Send), so oracles can run
//! anywhere; every event gets the simulator's global sequence number = its index in the trace.

use crate::plan::*;
use std::sync::Arc;

pub type Hid = usize;

#[derive(Clone, Copy, Debug, PartialEq, Eq)]
pub enum Ctx {
    Top,
    /// inside the function of node `hid`
    Node(Hid),
    /// inside the closure of bind `hid`
    BindFn(Hid),
    /// inside a cutoff closure of node `hid` (usize::MAX when a plain fn pointer: unknown node)
    Cutoff(Hid),
    /// inside subscription handler `sid`
    Handler(usize),
    /// inside node-level on_update handler
    NodeHandler(usize),
}
impl Ctx {
    pub fn in_propagation(self) -> bool {
        matches!(self, Ctx::Node(_) | Ctx::BindFn(_) | Ctx::Cutoff(_))
    }
    pub fn in_handler(self) -> bool {
        matches!(self, Ctx::Handler(_) | Ctx::NodeHandler(_))
    }
}

#[derive(Clone, Copy, Debug, PartialEq, Eq, Hash)]
pub enum ObsErr {
    CurrentlyStabilising,
    NeverStabilised,
    Disallowed,
    ObservingInvalid,
    Mismatch,
}
pub type RR = Result<MV, ObsErr>;

/// Resolved kind of a created node: inputs are harness ids.
#[derive(Clone, Debug, PartialEq)]
pub enum RK {
    Var { vid: usize, init: MV },
    Const(MV),
    Map { src: Hid, f: F1 },
    MapP { src: Hid, f: F2 },
    MapIP { src: Hid },
    MapN { srcs: Vec<Hid>, f: F2 },
    Fold { srcs: Vec<Hid>, init: i64, f: F2 },
    Zip { a: Hid, b: Hid },
    MapRef { src: Hid, proj: u8 },
    ZipQ { a: Hid, b: Hid },
    MapRefQ { src: Hid },
    MapWithOld { src: Hid, f: F1 },
    DependOn { a: Hid, b: Hid },
    Bind { lhs: Hid, outers: Vec<Hid>, memos: Vec<usize>, body: Arc<BodySpec> },
    // ---- nodes built by a bind closure (capture the lhs value `l`)
    BConst(i64),
    BMap { src: Hid, f: F2, l: i64 },
    BMap2 { a: Hid, b: Hid, f: F2 },
    BFold { srcs: Vec<Hid>, f: F2 },
    BVar { v: i64 },
    /// node made by memoised function `m` for `key`: `src.map(|x| x + key)`
    Memo { m: usize, key: i64, src: Hid },
    /// node made by a constructor memoised inside a bind closure: `src.map(|x| x + key)`
    BMemo { src: Hid, key: i64 },
}

#[derive(Clone, Debug, PartialEq)]
pub struct Created {
    pub hid: Hid,
    pub engine_id: usize,
    pub rk: RK,
    pub pair: bool,
    /// (bind hid, generation) whose closure run created the node; None = top level
    pub scope: Option<(Hid, u32)>,
    /// the driver holds a handle (top-level nodes, exported inner nodes)
    pub held: bool,
}

#[derive(Clone, Copy, Debug, PartialEq, Eq)]
pub enum Upd {
    Init(MV),
    Changed(MV),
    Invalidated,
    /// node-level handlers only
    Unnecessary,
}

#[derive(Clone, Debug, PartialEq)]
pub enum Act {
    Write { vid: usize, op: WriteOp, ret: Option<MV>, get_after: Option<MV> },
    GetVar { vid: usize, val: MV },
    ReadObs { oid: usize, clone: usize, res: RR },
    Observe { oid: usize, hid: Hid },
    CloneObs { oid: usize, clone: usize },
    DropObs { oid: usize, clone: usize },
    Disallow { oid: usize },
    Subscribe { oid: usize, sid: Option<usize>, err: Option<ObsErr> },
    Unsub { via_oid: usize, sid: usize, res: Result<(), ObsErr> },
    StateUnsub { sid: usize },
    OnUpdate { hid: Hid, nh: usize },
    SetCutoff { hid: Hid, c: CutoffSpec },
    DropNode { hid: Hid },
    DropVar { vid: usize },
    Memoize { m: usize, src: Hid },
    MemoCall { m: usize, key: i64, hid: Hid, fresh: bool, prev_alive: Option<Hid> },
    DropMemo { m: usize },
    IsStable { res: bool },
    SetMaxHeight { n: usize },
    DropState,
    Skipped(&'static str),
}

#[derive(Clone, Copy, Debug, PartialEq, Eq)]
pub enum EngineEv {
    Recompute(usize),
    Invalidate(usize),
    BecameNecessary(usize),
    BecameUnnecessary(usize),
}

#[derive(Clone, Debug, PartialEq)]
pub enum Ev {
    Created(Box<Created>),
    Act { ctx: Ctx, act: Act },
    RoundStart { round: u32 },
    RoundEnd { round: u32 },
    /// a node function ran
    Invoke { hid: Hid, args: Vec<MV>, old: Option<MV>, result: MV },
    /// one call of a fold function
    FoldStep { hid: Hid, acc: i64, x: i64, result: i64 },
    /// a bind closure ran: generation `gen` built `rhs`
    BindRun { bind: Hid, gen: u32, l: i64, rhs: Hid },
    Cutoff { hid: Option<Hid>, old: MV, new: MV, res: bool },
    /// subscription handler ran; `read` is what its observer returned at that moment
    Notify { sid: usize, upd: Upd, read: RR },
    NodeNotify { nh: usize, upd: Upd },
    Engine(EngineEv),
    /// automatic read of an observer handle after a top-level action
    Read { oid: usize, clone: usize, res: RR },
    VarGet { vid: usize, val: MV },
    /// nodes whose weak handle still upgrades, sampled right after a stabilise
    Alive { hids: Vec<Hid> },
    Audit { lines: Vec<String>, after_stabilise: bool },
    Panic { msg: String, injected: bool, ctx: Ctx },
    /// free-form marker (teardown steps, protocol steps)
    Note(String),
}

/// What an oracle reports.
#[derive(Clone, Debug, PartialEq)]
pub struct Violation {
    pub property: &'static str,
    /// stable identifier of the oracle rule that fired (violation class)
    pub rule: &'static str,
    /// index of the trace event at which it was detected
    pub at: usize,
    pub detail: String,
}

//! The simulated world of one run: the real engine state plus the driver's handle tables, the
//! trace and the online reference model. Lives on the run's own thread.

use std::cell::{Cell, RefCell};
use std::collections::BTreeMap;
use std::rc::{Rc, Weak};

use incremental::{Incr, IncrState, Observer, SubscriptionToken, Var, WeakIncr, WeakState};

use crate::model::Model;
use crate::plan::*;
use crate::trace::*;

pub type Pair = (i64, i64);
pub type Trip = (Pair, i64);

#[derive(Clone)]
pub enum NodeH {
    I(Incr<i64>),
    P(Incr<Pair>),
    Q(Incr<Trip>),
}
#[derive(Clone)]
pub enum WeakH {
    I(WeakIncr<i64>),
    P(WeakIncr<Pair>),
    Q(WeakIncr<Trip>),
}
impl WeakH {
    pub fn strong_count(&self) -> usize {
        match self {
            WeakH::I(w) => w.strong_count(),
            WeakH::P(w) => w.strong_count(),
            WeakH::Q(w) => w.strong_count(),
        }
    }
}
impl NodeH {
    pub fn weak(&self) -> WeakH {
        match self {
            NodeH::I(n) => WeakH::I(n.weak()),
            NodeH::P(n) => WeakH::P(n.weak()),
            NodeH::Q(n) => WeakH::Q(n.weak()),
        }
    }
    pub fn engine_id(&self) -> usize {
        match self {
            NodeH::I(n) => n.verif_id(),
            NodeH::P(n) => n.verif_id(),
            NodeH::Q(n) => n.verif_id(),
        }
    }
    pub fn is_pair(&self) -> bool {
        matches!(self, NodeH::P(_))
    }
    pub fn is_trip(&self) -> bool {
        matches!(self, NodeH::Q(_))
    }
    pub fn i(&self) -> Option<&Incr<i64>> {
        match self {
            NodeH::I(n) => Some(n),
            _ => None,
        }
    }
}
pub enum ObsH {
    I(Observer<i64>),
    P(Observer<Pair>),
    Q(Observer<Trip>),
}
pub enum VarH {
    I(Var<i64>),
    P(Var<Pair>),
}

pub trait ToMV: incremental::Value {
    fn mv(&self) -> MV;
}
impl ToMV for i64 {
    fn mv(&self) -> MV {
        MV::I(*self)
    }
}
impl ToMV for Pair {
    fn mv(&self) -> MV {
        MV::P(self.0, self.1)
    }
}
impl ToMV for Trip {
    fn mv(&self) -> MV {
        MV::Q(self.0 .0, self.0 .1, self.1)
    }
}

pub fn conv_err(e: incremental::ObserverError) -> ObsErr {
    use incremental::ObserverError as E;
    match e {
        E::CurrentlyStabilising => ObsErr::CurrentlyStabilising,
        E::NeverStabilised => ObsErr::NeverStabilised,
        E::Disallowed => ObsErr::Disallowed,
        E::ObservingInvalid => ObsErr::ObservingInvalid,
        E::Mismatch => ObsErr::Mismatch,
        _ => ObsErr::Mismatch,
    }
}

impl ObsH {
    pub fn read(&self) -> RR {
        match self {
            ObsH::I(o) => o.try_get_value().map(MV::I).map_err(conv_err),
            ObsH::P(o) => o.try_get_value().map(|p| p.mv()).map_err(conv_err),
            ObsH::Q(o) => o.try_get_value().map(|p| p.mv()).map_err(conv_err),
        }
    }
    pub fn clone_handle(&self) -> ObsH {
        match self {
            ObsH::I(o) => ObsH::I(o.clone()),
            ObsH::P(o) => ObsH::P(o.clone()),
            ObsH::Q(o) => ObsH::Q(o.clone()),
        }
    }
    pub fn disallow(&self) {
        match self {
            ObsH::I(o) => o.disallow_future_use(),
            ObsH::P(o) => o.disallow_future_use(),
            ObsH::Q(o) => o.disallow_future_use(),
        }
    }
    pub fn unsubscribe(&self, t: SubscriptionToken) -> Result<(), ObsErr> {
        match self {
            ObsH::I(o) => o.unsubscribe(t).map_err(conv_err),
            ObsH::P(o) => o.unsubscribe(t).map_err(conv_err),
            ObsH::Q(o) => o.unsubscribe(t).map_err(conv_err),
        }
    }
}

pub struct NodeEntry {
    pub h: Option<NodeH>,
    pub weak: WeakH,
    pub pair: bool,
    pub trip: bool,
    pub rk: RK,
    pub scope: Option<(Hid, u32)>,
    /// top level and not depending on any node created inside a bind closure
    pub clean: bool,
    /// static upper bound of the height the engine can give this node
    pub hb: i32,
    pub engine_id: usize,
}
pub struct VarEntry {
    pub h: Option<VarH>,
    pub hid: Hid,
    pub pair: bool,
}
pub struct ObsEntry {
    pub hid: Hid,
    pub clones: Vec<Option<ObsH>>,
}
pub struct SubEntry {
    pub oid: usize,
    pub token: SubscriptionToken,
}
/// A memoised constructor that can be cloned like the `impl FnMut + Clone` the library returns.
pub trait MemoF: FnMut(i64) -> Incr<i64> {
    fn clone_box(&self) -> Box<dyn MemoF>;
}
impl<F: FnMut(i64) -> Incr<i64> + Clone + 'static> MemoF for F {
    fn clone_box(&self) -> Box<dyn MemoF> {
        Box::new(self.clone())
    }
}
pub type MemoFn = Rc<RefCell<Box<dyn MemoF>>>;

pub struct MemoEntry {
    pub f: Option<MemoFn>,
    pub src: Hid,
    /// (key, hid, weak) of every node the underlying function ever made
    pub made: Vec<(i64, Hid, WeakIncr<i64>)>,
    pub fresh_flag: Rc<Cell<Option<Hid>>>,
    /// Some((bind, run)): memoised inside that run of a bind closure (its nodes belong to that run)
    pub local: Option<(Hid, u32)>,
}

/// Drop tokens: every closure given to the engine owns one; dropping the closure flips it.
#[derive(Default)]
pub struct TokenReg {
    pub dropped: RefCell<Vec<bool>>,
    pub owner: RefCell<Vec<Hid>>,
}
pub struct Token {
    reg: Rc<TokenReg>,
    id: usize,
}
impl TokenReg {
    pub fn issue(self: &Rc<Self>, owner: Hid) -> Token {
        let mut d = self.dropped.borrow_mut();
        d.push(false);
        self.owner.borrow_mut().push(owner);
        Token {
            reg: self.clone(),
            id: d.len() - 1,
        }
    }
}
impl Drop for Token {
    fn drop(&mut self) {
        if let Ok(mut d) = self.reg.dropped.try_borrow_mut() {
            d[self.id] = true;
        }
    }
}

/// Marker payload of simulator-injected panics (fault kind `panic`).
pub struct Injected(pub u64);

pub struct World {
    pub state: RefCell<Option<IncrState>>,
    pub wstate: WeakState,
    pub nodes: RefCell<Vec<NodeEntry>>,
    pub vars: RefCell<Vec<VarEntry>>,
    pub obs: RefCell<Vec<ObsEntry>>,
    pub subs: RefCell<Vec<SubEntry>>,
    pub nhandlers: Cell<usize>,
    pub memos: RefCell<Vec<MemoEntry>>,
    pub trace: RefCell<Vec<Ev>>,
    pub model: RefCell<Model>,
    pub ctx: RefCell<Vec<Ctx>>,
    pub in_stabilise: Cell<bool>,
    /// the lifecycle call (subscribe / unsubscribe) being made right now, "" if none; left set
    /// when the call unwinds, so that the panic can be attributed
    pub api: Cell<&'static str>,
    /// this run also renders the graph (save_dot_to_string) from callbacks and between actions
    pub dot_reads: Cell<bool>,
    /// an update handler has started running in the current stabilise
    pub handler_phase: Cell<bool>,
    pub crash_counter: Cell<u64>,
    pub crash_at: Option<u64>,
    /// invocation count per callback id
    pub calls: RefCell<Vec<u32>>,
    pub tokens: Rc<TokenReg>,
    pub by_engine_id: RefCell<BTreeMap<usize, Hid>>,
    pub bind_gen: RefCell<BTreeMap<Hid, u32>>,
    pub max_height: Cell<i32>,
    /// greatest height bound of any node ever registered (the engine never forgets a height it saw)
    pub max_hb_ever: Cell<i32>,
    pub me: Weak<World>,
    /// watchdog: total callback invocations (C19 "never hang")
    pub total_calls: Cell<u64>,
    pub call_limit: u64,
    /// targets of the special selectors (usize::MAX - 1, - 2)
    pub last_bind: Cell<Option<Hid>>,
    pub last_exported: Cell<Option<Hid>>,
    pub last_bind_obs: Cell<Option<usize>>,
}

thread_local! {
    /// the world of the run executing on this thread (plain-fn cutoffs and the engine listener
    /// have no other way to reach it)
    pub static CURRENT: RefCell<Weak<World>> = RefCell::new(Weak::new());
}

impl World {
    pub fn new(knobs: &Knobs) -> Rc<World> {
        let state = match knobs.max_height {
            Some(h) => IncrState::new_with_height(h),
            None => IncrState::new(),
        };
        let wstate = state.weak();
        Rc::new_cyclic(|me| World {
            state: RefCell::new(Some(state)),
            wstate,
            nodes: Default::default(),
            vars: Default::default(),
            obs: Default::default(),
            subs: Default::default(),
            nhandlers: Cell::new(0),
            memos: Default::default(),
            trace: Default::default(),
            model: RefCell::new(Model::new(knobs)),
            ctx: RefCell::new(vec![]),
            in_stabilise: Cell::new(false),
            api: Cell::new(""),
            dot_reads: Cell::new(knobs.hash_seed % 8 == 3),
            handler_phase: Cell::new(false),
            crash_counter: Cell::new(0),
            crash_at: knobs.crash_at,
            calls: Default::default(),
            tokens: Rc::new(TokenReg::default()),
            by_engine_id: Default::default(),
            bind_gen: Default::default(),
            max_height: Cell::new(knobs.max_height.map(|h| h as i32).unwrap_or(128)),
            max_hb_ever: Cell::new(0),
            me: me.clone(),
            total_calls: Cell::new(0),
            call_limit: 200_000,
            last_bind: Cell::new(None),
            last_exported: Cell::new(None),
            last_bind_obs: Cell::new(None),
        })
    }

    pub fn cur_ctx(&self) -> Ctx {
        self.ctx.borrow().last().copied().unwrap_or(Ctx::Top)
    }

    /// Appends an event to the trace and feeds it to the online model.
    pub fn log(&self, ev: Ev) {
        let idx = {
            let mut t = self.trace.borrow_mut();
            t.push(ev);
            t.len() - 1
        };
        let t = self.trace.borrow();
        if let Ok(mut m) = self.model.try_borrow_mut() {
            m.step(idx, &t[idx]);
        }
    }

    pub fn state(&self) -> Option<IncrState> {
        self.state.borrow().clone()
    }

    pub fn new_callback_id(&self) -> usize {
        let mut c = self.calls.borrow_mut();
        c.push(0);
        c.len() - 1
    }

    /// Bumps the per-callback invocation count; returns the 0-based invocation number.
    pub fn bump_call(&self, cb: usize) -> u32 {
        self.total_calls.set(self.total_calls.get() + 1);
        if self.total_calls.get() > self.call_limit {
            panic!("simulator watchdog: callback budget exhausted (possible livelock)");
        }
        let mut c = self.calls.borrow_mut();
        let n = c[cb];
        c[cb] += 1;
        n
    }

    /// Crash point: called at the entry of every user function that runs inside stabilise.
    pub fn crash_point(&self) {
        if !self.in_stabilise.get() {
            return;
        }
        let k = self.crash_counter.get();
        self.crash_counter.set(k + 1);
        if self.crash_at == Some(k) {
            std::panic::panic_any(Injected(k));
        }
    }

    /// Registers a created node in the tables and logs it. `keep` = the driver keeps a handle.
    pub fn register(
        &self,
        h: NodeH,
        rk: RK,
        scope: Option<(Hid, u32)>,
        keep: bool,
        clean: bool,
        hb: i32,
    ) -> Hid {
        let engine_id = h.engine_id();
        self.max_hb_ever.set(self.max_hb_ever.get().max(hb));
        let pair = h.is_pair();
        let trip = h.is_trip();
        let hid = {
            let mut nodes = self.nodes.borrow_mut();
            nodes.push(NodeEntry {
                weak: h.weak(),
                h: if keep { Some(h) } else { None },
                pair,
                trip,
                rk: rk.clone(),
                scope,
                clean,
                hb,
                engine_id,
            });
            nodes.len() - 1
        };
        self.by_engine_id.borrow_mut().insert(engine_id, hid);
        self.log(Ev::Created(Box::new(Created {
            hid,
            engine_id,
            rk,
            pair,
            scope,
            held: keep,
        })));
        hid
    }

    pub fn next_hid(&self) -> Hid {
        self.nodes.borrow().len()
    }

    pub fn node_h(&self, hid: Hid) -> Option<NodeH> {
        self.nodes.borrow().get(hid).and_then(|e| e.h.clone())
    }

    /// live handles of a pool, in hid order
    pub fn pool(&self, pool: Pool) -> Vec<Hid> {
        self.nodes
            .borrow()
            .iter()
            .enumerate()
            .filter(|(_, e)| {
                e.h.is_some()
                    && match pool {
                        Pool::I => !e.pair && !e.trip,
                        Pool::P => e.pair,
                        Pool::Q => e.trip,
                        Pool::Any => true,
                    }
            })
            .map(|(i, _)| i)
            .collect()
    }
    pub fn pick(&self, pool: Pool, idx: usize) -> Option<Hid> {
        let p = self.pool(pool);
        if p.is_empty() {
            None
        } else if idx == usize::MAX {
            // "the most recently created one"
            p.last().copied()
        } else if idx == usize::MAX - 1 {
            // "the bind created last"
            self.last_bind.get().filter(|h| p.contains(h)).or(p.last().copied())
        } else if idx == usize::MAX - 2 {
            // "the node most recently handed out by a bind closure"
            self.last_exported.get().filter(|h| p.contains(h)).or(p.last().copied())
        } else {
            Some(p[idx % p.len()])
        }
    }
    pub fn clean_pool(&self) -> Vec<Hid> {
        self.nodes
            .borrow()
            .iter()
            .enumerate()
            .filter(|(_, e)| e.h.is_some() && !e.pair && !e.trip && e.clean)
            .map(|(i, _)| i)
            .collect()
    }
    pub fn live_vars(&self) -> Vec<usize> {
        self.vars
            .borrow()
            .iter()
            .enumerate()
            .filter(|(_, v)| v.h.is_some())
            .map(|(i, _)| i)
            .collect()
    }
    pub fn pick_var(&self, idx: usize) -> Option<usize> {
        let p = self.live_vars();
        if p.is_empty() {
            None
        } else if idx == usize::MAX {
            // "the variable created last"
            p.last().copied()
        } else if idx == usize::MAX - 1 {
            // "the one before it"
            p.iter().rev().nth(1).copied().or(p.last().copied())
        } else {
            Some(p[idx % p.len()])
        }
    }
    /// observers that still have at least one live clone handle
    pub fn live_obs(&self) -> Vec<usize> {
        self.obs
            .borrow()
            .iter()
            .enumerate()
            .filter(|(_, o)| o.clones.iter().any(|c| c.is_some()))
            .map(|(i, _)| i)
            .collect()
    }
    pub fn pick_obs(&self, idx: usize) -> Option<usize> {
        let p = self.live_obs();
        if p.is_empty() {
            None
        } else if idx == usize::MAX {
            p.last().copied()
        } else if idx == usize::MAX - 1 {
            // "the observer most recently put on a bind"
            self.last_bind_obs.get().filter(|o| p.contains(o)).or(p.last().copied())
        } else {
            Some(p[idx % p.len()])
        }
    }
    /// (oid, clone index) of a live handle of observer `oid`
    pub fn live_clone(&self, oid: usize, idx: usize) -> Option<usize> {
        let obs = self.obs.borrow();
        let live: Vec<usize> = obs[oid]
            .clones
            .iter()
            .enumerate()
            .filter(|(_, c)| c.is_some())
            .map(|(i, _)| i)
            .collect();
        if live.is_empty() {
            None
        } else {
            Some(live[idx % live.len()])
        }
    }

    /// transitive inputs of `hid` through the resolved kinds (not through bind right-hand sides)
    pub fn ancestors(&self, hid: Hid) -> Vec<Hid> {
        let nodes = self.nodes.borrow();
        let mut seen = vec![];
        let mut stack = vec![hid];
        while let Some(h) = stack.pop() {
            for c in rk_inputs(&nodes[h].rk) {
                if !seen.contains(&c) {
                    seen.push(c);
                    stack.push(c);
                }
            }
        }
        seen.sort();
        seen
    }
}

pub fn rk_inputs(rk: &RK) -> Vec<Hid> {
    match rk {
        RK::Var { .. } | RK::Const(_) | RK::BConst(_) | RK::BVar { .. } => vec![],
        RK::Map { src, .. }
        | RK::MapP { src, .. }
        | RK::MapIP { src }
        | RK::MapRef { src, .. }
        | RK::MapRefQ { src }
        | RK::MapWithOld { src, .. }
        | RK::BMap { src, .. }
        | RK::Memo { src, .. }
        | RK::BMemo { src, .. } => vec![*src],
        RK::MapN { srcs, .. } | RK::Fold { srcs, .. } | RK::BFold { srcs, .. } => srcs.clone(),
        RK::Zip { a, b } | RK::ZipQ { a, b } | RK::DependOn { a, b } | RK::BMap2 { a, b, .. } => vec![*a, *b],
        RK::Bind { lhs, outers, .. } => {
            let mut v = vec![*lhs];
            v.extend(outers.iter().copied());
            v
        }
    }
}

//! Action alphabets of the smaller engines (expert, map, limits). They ride inside
//! `Action::X(..)` so that plans, replay files and the minimiser are shared with the core engine.

use serde::{Deserialize, Serialize};

#[derive(Serialize, Deserialize, Clone, Debug, PartialEq)]
pub enum XAct {
    // ---- shared
    Stabilise,
    /// observe output number `out`
    Observe { out: usize },
    DropObs { obs: usize },
    // ---- expert engine
    /// choose dependency configuration `k` of the dynamic sum
    SetSel { k: usize },
    /// choose which inner node the join / expert-bind follow
    SetOuter { j: usize },
    /// change the input of the bind that creates the invalidatable child
    SetBsel { x: i64 },
    WriteChild { i: usize, v: i64 },
    /// make_stale on the dynamic sum from a child's function, at the next stabilise
    Poke,
    /// invalidate the dynamic sum from a child's function, at the next stabilise
    Invalidate,
    /// add a plain dependency (no callback) on a fresh constant to the dynamic sum from the top
    /// level, between two stabilises (as the construction-time dependencies are added)
    TopAdd,
    /// arm the observability callback of the dynamic sum: the next time it fires it writes
    /// child variable `i` (a write made inside stabilise: deferred to its end)
    HookArm { i: usize, v: i64 },
    // ---- map engine
    /// edit input map `m` (0 = main, 1 = second input of merge)
    MapInsert { m: usize, k: i64, v: i64 },
    MapRemove { m: usize, k: i64 },
    MapClear { m: usize },
    MapRefill { m: usize, seed: u64 },
    /// write the current map again (no-op write)
    MapTouch { m: usize },
    WriteOuter { v: i64 },
    // ---- limits engine
    /// add a chain of `len` maps on top of chain end `on`
    Chain { on: usize, len: usize },
    /// a bind whose body builds a chain of `depth` maps
    BindChain { on: usize, depth: usize },
    Write { v: i64 },
    SetMaxHeight { n: usize },
    Misuse { kind: u8, at: u8 },
}

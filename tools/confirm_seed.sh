#!/bin/bash
# confirm_seed.sh <patch.diff> <demo.rs>
# Confirms in a scratch worktree of /repo (outside /repo and /verif) that the seeded change
# (1) compiles and keeps the existing suite green, (2) makes the demonstration fail, and that
# (3) the demonstration passes without it. Removes the worktree and its build output afterwards.
set -u
PATCH=$(readlink -f "$1"); DEMO=$(readlink -f "$2")
WT=/tmp/wt-confirm-$$
git -C /repo worktree add --detach -q "$WT" HEAD || exit 2
cd "$WT" || exit 2
export CARGO_NET_OFFLINE=true CARGO_TARGET_DIR=/tmp/wt-confirm-target
res="ok"
cp "$DEMO" tests/seeded_demo.rs
if cargo test --offline --test seeded_demo >/tmp/confirm-clean.log 2>&1; then echo "demo passes without the change: yes"; else echo "demo passes without the change: NO"; res=bad; fi
if git apply "$PATCH"; then echo "patch applies: yes"; else echo "patch applies: NO"; res=bad; fi
if cargo test --offline --test seeded_demo >/tmp/confirm-patched.log 2>&1; then echo "demo fails with the change: NO"; res=bad; else echo "demo fails with the change: yes"; fi
rm tests/seeded_demo.rs
if cargo test --workspace --no-fail-fast --offline >/tmp/confirm-suite.log 2>&1; then echo "suite passes with the change: yes ($(grep -c '^test .* ok$' /tmp/confirm-suite.log) tests ok)"; else echo "suite passes with the change: NO"; res=bad; fi
cd /; git -C /repo worktree remove --force "$WT"
echo "RESULT $res"
[ "$res" = ok ]

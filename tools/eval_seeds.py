#!/usr/bin/env python3
"""eval_seeds.py [scale] [id ...]: for every seeded change under /verif/seeded (or the given ids)
apply patch.diff to /repo, run the quick checks listed in meta.json["checks_to_run"], record which
raise a VIOLATION (and with which rule ids) in meta.json, and undo the patch."""
import json, os, subprocess, sys, re, glob
# under `vp run --with-repo` both trees are snapshots: evaluate there, leaving /repo and /verif alone
VERIF = os.path.dirname(os.path.dirname(os.path.abspath(__file__)))
REPO = os.environ.get('VP_RUN_REPO', '/repo') if VERIF != '/verif' else '/repo'
scale = sys.argv[1] if len(sys.argv) > 1 else "0.5"
ids = sys.argv[2:] or sorted(os.listdir(f'{VERIF}/seeded'))
for sid in ids:
    d = f'{VERIF}/seeded/{sid}'
    meta = json.load(open(f'{d}/meta.json'))
    if subprocess.call(['git', '-C', REPO, 'apply', f'{d}/patch.diff']) != 0:
        print(sid, 'PATCH DOES NOT APPLY'); continue
    caught, missed, detail, rates = [], [], {}, {}
    try:
        for prop in meta['checks_to_run']:
            env = dict(os.environ, VERIF_SCALE=scale)
            p = subprocess.run(['./bin/check', prop, 'quick'], cwd=VERIF, env=env, capture_output=True, text=True)
            rules = sorted(set(re.findall(r'^  rule=(\S+)', p.stdout, re.M)))
            m = re.search(r'^%s: (\d+) runs .*?violating runs: (\{.*?\});' % prop, p.stdout, re.M)
            if m:
                rates[prop] = {'runs': int(m.group(1)), 'violating_runs': m.group(2)}
            if p.returncode == 1 and rules:
                caught.append(prop); detail[prop] = rules
            else:
                missed.append(prop)
                if p.returncode not in (0, 1): detail[prop] = [f'exit {p.returncode}']
    finally:
        subprocess.call(['git', '-C', REPO, 'checkout', '--', '.'])
        subprocess.call(['git', '-C', VERIF, 'checkout', '--', 'evidence'])
        for f in glob.glob(f'{VERIF}/replays/*.json'): os.remove(f)
    meta['caught_by'] = [f'{p}: ' + ', '.join(detail[p]) for p in caught]
    meta['missed_by'] = missed
    meta['hit_rates'] = rates
    meta['checks_run'] = f'./bin/check <property> quick with VERIF_SCALE={scale} VERIF_SEED=1 for ' + ', '.join(meta['checks_to_run']) + ' with the patch applied to /repo (undone afterwards)'
    json.dump(meta, open(f'{d}/meta.json', 'w'), indent=1)
    print(sid, 'caught by', meta['caught_by'], 'missed by', missed, flush=True)

#!/bin/bash
# hunt.sh <property> <batch seed>: re-run the histories of `bin/check <property> quick` with VERIF_SEED=<batch seed>
# in parallel single-process hunters and print, per oracle rule of *any* property, how many runs violated it and
# the first seed (to be fed to `simcheck show|plan <property> <seed>`). Uses the binaries already built in target/.
cd "$(dirname "$0")/.." || exit 2
p=$1; b=$2; T=target; tmp=$(mktemp -d)
for k in 0 1 2 3 4 5 6 7; do $T/release/simcheck dev $p 75000 $b $((k*75000)) > $tmp/r$k 2>&1 & done
for k in 0 1 2 3; do $T/debug/simcheck dev $p 50000 $b $((600000+k*50000)) > $tmp/d$k 2>&1 & done
wait
cat $tmp/r* | grep -v "^seed\|runs (" | grep -v "ran-outside-cones-transient" | sed 's/^/rel /'
cat $tmp/d* | grep -v "^seed\|runs (" | grep -v "ran-outside-cones-transient" | sed 's/^/dbg /'
rm -rf $tmp

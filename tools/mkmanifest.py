#!/usr/bin/env python3
"""Regenerates /verif/MANIFEST.json from tools/claims.json (the per-property claims) and the
hook commits found in /repo's history."""
import json, subprocess
props=[json.loads(l) for l in open('/verif/properties.jsonl')]
claims=json.load(open('/verif/tools/claims.json'))
hooks=subprocess.check_output(['git','-C','/repo','log','--reverse','--format=%H %s']).decode().splitlines()
hook_commits=[l.split()[0] for l in hooks if 'verif hook' in l]
DEFAULT_TECH="deterministic simulation with fault injection: seeded histories x schedules x re-entrant faults against an executable reference model, exact replay"
NOTE="Trusted: the reference model and oracles in sim/src (model*.rs and the engine-specific oracles), the plan interpreters, the observational hooks H1-H6 in /repo/src/verif.rs. Sampled, not exhaustive: programs come from a finite combinator grammar over a small value domain."
checks=[]; na=[]
for p in props:
    i=p['id']
    c=claims['claimed'].get(i)
    if c:
        checks.append({"property_id":i,"quick_cmd":f"./bin/check {i} quick","thorough_cmd":f"./bin/check {i} thorough","evidence_file":f"evidence/{i}.json","replay_cmd_template":"./bin/check replay {path}","engine":c.get("engine","simcheck-core"),"level_claimed":{"category":c["level"],"text":c["text"],"design_ref":c["ref"]},"level_note":c.get("note",NOTE),"technique":c.get("technique",DEFAULT_TECH)})
    else:
        na.append({"property_id":i,"reason":claims['not_applicable'][i]})
engines={}
for c in checks: engines.setdefault(c['engine'],[]).append(c['property_id'])
m={"version":1,"setup_cmd":"./bin/check build","hooks":{"guard":"cormacrelf_incremental_rs_verif","enable":"--cfg cormacrelf_incremental_rs_verif through /verif/sim/.cargo/config.toml; bin/check rebuilds the simulator against /repo's working tree with it","baseline_off_cmd":"cd /repo && cargo test --workspace --no-fail-fast --offline","source_commits":hook_commits,"add_only":True},
"engines":[{"name":k,"path":"sim/","serves_properties":v,"kind_free_text":claims['engines'].get(k,"")} for k,v in engines.items()],
"checks":checks,"notes":"See DESIGN.md. VERIF_SEED selects the batch (default 1); VERIF_SCALE scales run counts; VERIF_WORKERS the number of worker processes (default 16). Known findings: known_findings.jsonl.","not_applicable":na}
json.dump(m,open('/verif/MANIFEST.json','w'),indent=1)
print("claimed",len(checks),"not applicable",[x['property_id'] for x in na])

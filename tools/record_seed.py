#!/usr/bin/env python3
"""record_seed.py <out-dir> <variant A|B> <seed-id> <property> <caught: comma list of 'Cxx:rule' or '-'> <missed: comma list or '-'> <ran: text>
Copies a confirmed seeded change into /verif/seeded/<seed-id>/ with meta.json."""
import sys, os, shutil, json, re
out, var, sid, prop, caught, missed, ran = sys.argv[1:8]
d=f'/verif/seeded/{sid}'
os.makedirs(d, exist_ok=True)
shutil.copy(f'{out}/{var}.patch.diff', f'{d}/patch.diff')
shutil.copy(f'{out}/{var}.demo.rs', f'{d}/demo.rs')
notes=open(f'{out}/{var}.notes.md').read()
open(f'{d}/notes.md','w').write(notes)
needs=""
m=re.search(r'(?is)(what (?:it|exactly) (?:needs|is needed)[^\n]*\n.*?)(\n#|\Z)', notes)
if m: needs=m.group(1).strip()[:1500]
meta={"id":sid,"breaks_property":prop,"source":"fresh sub-agent given only the property text and a scratch worktree of /repo",
 "needs_to_manifest":needs or "see notes.md",
 "confirmed":{"how":"tools/confirm_seed.sh in a scratch worktree of /repo at HEAD (removed afterwards)","demo_passes_without_change":True,"demo_fails_with_change":True,"existing_suite_passes_with_change":True},
 "checks_run":ran,
 "caught_by":[c for c in caught.split(',') if c!='-'],
 "missed_by":[c for c in missed.split(',') if c!='-']}
json.dump(meta,open(f'{d}/meta.json','w'),indent=1)
print("recorded",d)

#!/bin/bash
# soak: every quick check under several batch seeds on the unchanged tree; any VIOLATION or non-zero exit is a problem
# usage: tools/soak.sh <first-seed> <last-seed> [tier]
cd "$(dirname "$0")/.." || exit 2
tier=${3:-quick}
bad=0
for s in $(seq "$1" "$2"); do
  for p in C01 C02 C03 C04 C05 C06 C07 C08 C09 C10 C11 C12 C13 C14 C15 C16 C17 C19 C20; do
    out=$(VERIF_SEED=$s ./bin/check $p $tier 2>&1); rc=$?
    echo "seed=$s $p rc=$rc $(echo "$out" | grep -c '^VIOLATION') violations; $(echo "$out" | tail -1 | cut -c1-110)"
    # violations of *other* properties seen under this profile are worth triaging too
    other=$(echo "$out" | tail -1 | grep -o 'cut short by other properties: {.*}' | sed 's/"C05 ran-outside-cones-transient": [0-9]*,\? \?//')
    case "$other" in *'{}'*|'') ;; *) echo "   OTHER seed=$s $p $other" ;; esac
    if [ $rc -ne 0 ] || echo "$out" | grep -q '^VIOLATION'; then bad=1; echo "$out" | grep -E '^VIOLATION|mismatch|error' | head -5; fi
  done
done
echo "soak done bad=$bad"

#!/bin/bash
# thorough_all.sh [props...]: every thorough check once on the unchanged tree; prints cross-property findings too
cd "$(dirname "$0")/.." || exit 2
props=${@:-C01 C02 C03 C04 C05 C06 C07 C08 C09 C10 C11 C12 C13 C14 C15 C16 C17 C19 C20}
for p in $props; do
  out=$(./bin/check $p thorough 2>&1); rc=$?
  echo "$p rc=$rc $(echo "$out" | grep -c '^VIOLATION') violations; $(echo "$out" | tail -1 | cut -c1-110)"
  other=$(echo "$out" | tail -1 | grep -o 'cut short by other properties: {.*}' | sed 's/"C05 ran-outside-cones-transient": [0-9]*,\? \?//')
  case "$other" in *'{}'*|'') ;; *) echo "   OTHER $p $other" ;; esac
  echo "$out" | grep -E '^VIOLATION|^  rule=|HARNESS' | head -8
done
echo "thorough sweep done"

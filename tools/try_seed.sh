#!/bin/bash
# try_seed.sh <patch.diff> <scale> <prop> [<prop>...]
# Applies the seeded change to /repo, runs the quick checks of the given properties, and undoes it.
set -u
PATCH=$(readlink -f "$1"); SCALE=$2; shift 2
cd /verif
git -C /repo apply "$PATCH" || { echo "patch does not apply"; exit 2; }
for p in "$@"; do
  out=$(VERIF_SCALE=$SCALE ./bin/check $p quick 2>&1); code=$?
  echo "== $p exit=$code"
  echo "$out" | grep -E "^VIOLATION|^  rule=|KNOWN|HARNESS|cut short" | cut -c1-330 | head -12
done
git -C /repo checkout -- .
git -C /verif checkout -- evidence 2>/dev/null
find /verif/replays -name '*.json' -newer "$PATCH" -delete 2>/dev/null
